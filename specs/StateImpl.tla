------------------------------ MODULE StateImpl ------------------------------
(***************************************************************************)
(* C06: the serialized state of containers (__getstate__ / __setstate__,   *)
(* hence pickle and copy) as implemented:                                  *)
(*   leaf     (items[, next])                                              *)
(*   interior None                      iff empty                          *)
(*            ((leafstate,),)           iff one child, a leaf without oid  *)
(*            ((c0,k1,c1,...), first)   otherwise (children by reference)  *)
(* Deviation "EmbeddedNonRootLeaf" (what the code does): ANY interior node *)
(* with a single oid-less leaf uses the inline form, not only a one-leaf   *)
(* tree.  Loading such a state builds a FRESH leaf, while the predecessor  *)
(* leaf and the ancestors' firstbucket still refer to the original one.    *)
(* Without a database no node has an oid.                                  *)
(***************************************************************************)
EXTENDS BTreeImpl

Embeds(h, id) ==
  LET n == h[id] IN
  /\ n.t = "I" /\ Len(n.kids) = 1 /\ h[n.kids[1]].t = "L"
  /\ (id = Root \/ "EmbeddedNonRootLeaf" \in Dev)

LeafStateV(h, id) == [f |-> "leaf", ks |-> h[id].ks, vs |-> h[id].vs, nx |-> LeafIdx(h, h[id].nx)]
RECURSIVE GetStateV(_, _)
GetStateV(h, id) ==
  LET n == h[id] IN
  IF n.t = "L" THEN LeafStateV(h, id)
  ELSE IF Len(n.kids) = 0 THEN [f |-> "none"]
  ELSE IF Embeds(h, id) THEN [f |-> "emb", leaf |-> LeafStateV(h, n.kids[1])]
  ELSE [f |-> "node", kids |-> [j \in 1..Len(n.kids) |-> GetStateV(h, n.kids[j])],
        seps |-> SubSeq(n.seps, 2, Len(n.seps)), fb |-> LeafIdx(h, n.fb)]

\* the heap a copy (setstate(getstate), pickle round trip, deepcopy) consists of
EmbNodes(h) == {id \in DOMAIN h : id # Root /\ Embeds(h, id)}
RECURSIVE FreshIds(_, _, _)
FreshIds(h, S, acc) ==          \* assign a fresh id to the embedded leaf of every node in S
  IF S = {} THEN acc
  ELSE LET x == CHOOSE y \in S : \A z \in S : y <= z
           used == DOMAIN h \cup {acc[k] : k \in DOMAIN acc}
           nid == CHOOSE i \in 1..(Cardinality(used) + 1) : i \notin used
       IN FreshIds(h, S \ {x}, [k \in DOMAIN acc \cup {x} |-> IF k = x THEN nid ELSE acc[k]])
RoundTrip(h) ==
  LET E == EmbNodes(h)
      fr == FreshIds(h, E, [k \in {} |-> 0])
      ids == DOMAIN h \cup {fr[k] : k \in E}
  IN GC([x \in ids |->
           IF x \in DOMAIN h
             THEN IF x \in E THEN Inner(<<fr[x]>>, <<0>>, fr[x]) ELSE h[x]
             ELSE LET owner == CHOOSE k \in E : fr[k] = x IN h[h[owner].kids[1]]])

\* the heap restricted/GC'd must be sound (structure predicates of BTreeImpl, on a heap argument)
HChainOK(h) == ChainIds(h, h[Root].fb, Cardinality(DOMAIN h) + 1) = Descend(h, Root)
HFirstOK(h) == \A id \in DOMAIN h : h[id].t = "I" /\ Len(h[id].kids) > 0 =>
                 LET c == h[h[id].kids[1]] IN h[id].fb = IF c.t = "L" THEN h[id].kids[1] ELSE c.fb

RoundTripOK ==
  LET h2 == RoundTrip(heap) IN
  /\ Render(h2, Root) = Render(heap, Root)       \* equal ordered contents, same shape
  /\ HChainOK(h2) /\ HFirstOK(h2)                \* sound: the copy's leaf chain is its descent order
FormsOK ==
  LET g == GetStateV(heap, Root) IN
  /\ (g.f = "none") = (Len(heap[Root].kids) = 0)
  /\ (g.f = "emb") = (Len(heap[Root].kids) = 1 /\ heap[heap[Root].kids[1]].t = "L")

\* a one-leaf tree whose leaf is a stored object (it has an oid) refers to it instead of embedding it
RootStateWithStoredLeaf(h) ==
  LET n == h[Root] IN
  IF Len(n.kids) = 1 /\ h[n.kids[1]].t = "L"
    THEN [f |-> "node", kids |-> <<LeafStateV(h, n.kids[1])>>, seps |-> <<>>, fb |-> LeafIdx(h, n.fb)]
    ELSE GetStateV(h, Root)
DumpS == PrintT(<<"TR", ToJson([from |-> Proj(heap, Root), act |-> act', res |-> res'.impl,
                                to |-> Proj(heap', Root), gs |-> GetStateV(heap', Root), gso |-> RootStateWithStoredLeaf(heap'),
                                rt |-> Proj(RoundTrip(heap'), Root)])>>)
=============================================================================
