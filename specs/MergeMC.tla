------------------------------- MODULE MergeMC -------------------------------
(* every triple of leaf states over a key universe and value set is an      *)
(* initial state; WalkOK is the invariant                                   *)
EXTENDS Merge
CONSTANTS Keys, Vals, Links
StateOf(f) == LET ks == MSeqOfSet(DOMAIN f) IN [j \in 1..Len(ks) |-> <<ks[j], f[ks[j]]>>]
AllStates == UNION { { StateOf(f) : f \in [S -> Vals] } : S \in SUBSET Keys }
VARIABLES o, c, n, xo, xc, xn
vars == <<o, c, n, xo, xc, xn>>
T == [o |-> o, c |-> c, n |-> n, xo |-> xo, xc |-> xc, xn |-> xn]
Init == /\ o \in AllStates /\ c \in AllStates /\ n \in AllStates
        /\ xo \in Links /\ xc \in Links /\ xn \in Links
Next == UNCHANGED vars
Spec == Init /\ [][Next]_vars
WalkOK == WalkEqualsSpec(T)
=============================================================================
