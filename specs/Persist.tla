------------------------------- MODULE Persist -------------------------------
(***************************************************************************)
(* C04: the persistence layer of the containers as the code has it, over   *)
(* the B+tree of BTreeImpl.                                                *)
(*                                                                         *)
(*   oids   nodes known to the data manager (they have an oid)             *)
(*   reg    nodes that registered themselves as changed in the current     *)
(*          transaction, in the order of their first PER_CHANGED /         *)
(*          _p_changed = True                                              *)
(*   store  oid -> stored state (what __getstate__ returned at commit)     *)
(*                                                                         *)
(* PSetR / PDelR are SetR / DelR of BTreeImpl extended with the sequence   *)
(* of change notifications in call order (the invariant Same* states that  *)
(* they build the same tree).  Commit writes exactly the registered nodes, *)
(* in ZODB's order: registered objects first-come; objects first reached   *)
(* while serializing get an oid on the spot and are written next, last-in  *)
(* first-out.  The state forms are those of BTree_getstate/bucket_getstate *)
(* (inline leaf form included).  A fresh reader is Loaded(store).          *)
(*                                                                         *)
(* Named deviations of the code from the design (members of Dev):          *)
(*   "EmbeddedNonRootLeaf"  any interior node with a single oid-less leaf  *)
(*                          uses the inline form, not only a one-leaf tree *)
(*   "GarbageKeepsNext"     an emptied, unlinked leaf keeps its successor  *)
(*                          pointer and is written with it                 *)
(* The code has both.  With Dev = {} ReloadOK and AbortOK hold; each       *)
(* deviation alone is refuted by TLC (recorded finding D18).               *)
(***************************************************************************)
EXTENDS BTreeImpl

CONSTANTS PImpl,        \* "c" | "py"  (clear() of an empty tree registers in Python only)
          SameValReg,   \* TRUE: storing the value that is already there registers the leaf (object values)
          IsSet,        \* TRUE for TreeSet (Python: add() of a present key to a one-leaf tree still flags the tree)
          MaxCommits, MaxOps

VARIABLES oids, reg, store, cm, ncommit, nops
pvars == <<heap, m, act, res, oids, reg, store, cm, ncommit, nops>>

SeqSet(s) == {s[j] : j \in 1..Len(s)}
InSeq(s, x) == \E j \in 1..Len(s) : s[j] = x
RECURSIVE AppendNewFrom(_, _, _)
AppendNewFrom(s, xs, j) == IF j > Len(xs) THEN s
                           ELSE AppendNewFrom(IF InSeq(s, xs[j]) THEN s ELSE Append(s, xs[j]), xs, j + 1)
AppendNew(s, xs) == AppendNewFrom(s, xs, 1)
\* register(): only objects with an oid, only on their first change in the transaction
RegAdd(r, chg, os) == AppendNew(r, SelectSeq(chg, LAMBDA x : x \in os))

-----------------------------------------------------------------------------
(* _BTree_set with a value, with the PER_CHANGED calls in order.            *)
(* lc: the leaf changed (bucket_changed).  Inline rule: a changed leaf      *)
(* that is the node's only child and has no oid flags the node itself.      *)
RECURSIVE PSetR(_, _, _, _, _, _)
PSetR(h, os, self, k, v, unique) ==
  LET s0  == h[self]
      bid == NewId(h)
      h0  == IF Len(s0.kids) = 0
               THEN Upd(Ext(h, bid, Leaf(<<>>, <<>>, Nil)), self, Inner(<<bid>>, <<0>>, bid))
               ELSE h
      s   == h0[self]
      i   == TreeSearch(s, k)
      cid == s.kids[i]
      c   == h0[cid]
      r == IF c.t = "I" THEN PSetR(h0, os, cid, k, v, unique)
           ELSE IF Has(c.ks, k)
                  THEN IF unique THEN [h |-> h0, st |-> 0, chg |-> <<>>, lc |-> FALSE]
                       ELSE LET ch == (c.vs[Pos(c.ks, k)] # v) \/ SameValReg IN
                            [h |-> Upd(h0, cid, Leaf(c.ks, SetAt(c.vs, Pos(c.ks, k), v), c.nx)), st |-> 0,
                             chg |-> IF ch THEN <<cid>> ELSE <<>>, lc |-> ch]
           ELSE [h |-> Upd(h0, cid, Leaf(InsertAt(c.ks, Pos(c.ks, k), k),
                                        InsertAt(c.vs, Pos(c.ks, k), v), c.nx)), st |-> 1,
                 chg |-> <<cid>>, lc |-> TRUE]
      \* _base.py _Tree._set tests `grew is not None`; _Set._set answers False (not None) for a present key
      inl == c.t = "L" /\ (r.lc \/ (PImpl = "py" /\ IsSet)) /\ Len(s.kids) = 1 /\ cid \notin os
  IN IF r.st = 0
       THEN [h |-> r.h, st |-> 0, chg |-> r.chg \o (IF inl THEN <<self>> ELSE <<>>), lc |-> FALSE]
       ELSE LET c2 == r.h[cid]
                toobig == NLen(c2) > (IF c2.t = "I" THEN MaxInt ELSE MaxLeaf)
            IN [h |-> IF toobig THEN Grow(r.h, self, i) ELSE r.h, st |-> 1,
                \* bucket_split / BTree_split flag the child that was split, then `changed` flags self at Done
                chg |-> r.chg \o (IF toobig THEN <<cid>> ELSE <<>>) \o (IF inl \/ toobig THEN <<self>> ELSE <<>>),
                lc |-> FALSE]

(* _BTree_set without a value (delete).  Per level, in call order:          *)
(* separator refresh flags self at once; Bucket_deleteNextBucket flags the  *)
(* predecessor leaf (only if it has a successor); `changed` flags self at   *)
(* Done (inline rule, firstbucket update, child removed).                   *)
RECURSIVE PDelR(_, _, _, _)
PDelR(h, os, self, k) ==
  LET s == h[self] IN
  IF Len(s.kids) = 0 THEN [h |-> h, st |-> 0, chg |-> <<>>] ELSE
  LET i   == TreeSearch(s, k)
      cid == s.kids[i]
      c   == h[cid]
      r == IF c.t = "I" THEN PDelR(h, os, cid, k)
           ELSE IF ~Has(c.ks, k) THEN [h |-> h, st |-> 0, chg |-> <<>>]
           ELSE [h |-> Upd(h, cid, Leaf(RemoveAt(c.ks, Pos(c.ks, k)),
                                        RemoveAt(c.vs, Pos(c.ks, k)), c.nx)), st |-> 1, chg |-> <<cid>>]
  IN IF r.st = 0 THEN r ELSE
  LET h1   == r.h
      c1   == h1[cid]
      clen == NLen(c1)
      inl  == c.t = "L" /\ Len(s.kids) = 1 /\ cid \notin os
      refresh == i > 1 /\ clen > 0 /\ s.seps[i] = k
      s1 == IF refresh
              THEN LET b == IF c1.t = "I" THEN h1[c1.fb] ELSE c1 IN
                   Inner(s.kids, [s.seps EXCEPT ![i] = b.ks[1]], s.fb)
              ELSE s
      pred2 == IF r.st = 2 /\ i > 1 THEN LastBucket(h1, s.kids[i-1]) ELSE Nil
      h2  == IF pred2 # Nil THEN DeleteNext(h1, pred2) ELSE h1
      s2  == IF r.st = 2 /\ i = 1 THEN Inner(s1.kids, s1.seps, h1[cid].fb) ELSE s1
      st2 == IF r.st = 2 /\ i > 1 THEN 1 ELSE r.st
      chgA == r.chg \o (IF refresh THEN <<self>> ELSE <<>>)
                    \o (IF pred2 # Nil /\ h1[pred2].nx # Nil THEN <<pred2>> ELSE <<>>)
      changedA == inl \/ (r.st = 2 /\ i = 1)
  IN IF clen > 0
       THEN [h |-> Upd(h2, self, s2), st |-> st2, chg |-> chgA \o (IF changedA THEN <<self>> ELSE <<>>)]
       ELSE
  LET isleaf == c1.t = "L"
      predL == IF isleaf /\ i > 1 THEN s.kids[i-1] ELSE Nil
      h3  == IF predL # Nil THEN DeleteNext(h2, predL) ELSE h2
      s3  == IF isleaf /\ i = 1 THEN Inner(s2.kids, s2.seps, c1.nx) ELSE s2
      st3 == IF isleaf /\ i = 1 THEN 2 ELSE st2
      kids4 == RemoveAt(s3.kids, i)
      seps4 == IF i = 1 /\ Len(s3.seps) > 1
                 THEN <<0>> \o SubSeq(s3.seps, 3, Len(s3.seps))
                 ELSE RemoveAt(s3.seps, i)
      s4 == Inner(kids4, seps4, s3.fb)
  IN [h |-> Upd(h3, self, s4), st |-> st3,
      chg |-> chgA \o (IF predL # Nil /\ h2[predL].nx # Nil THEN <<predL>> ELSE <<>>) \o <<self>>]

\* the transcription with notifications builds the same tree as BTreeImpl's
SameAsImpl == \A k \in Keys :
  /\ LET a == PDelR(heap, oids, Root, k)  b == DelR(heap, Root, k) IN a.st = b.st /\ (a.st # 0 => a.h = b.h)
  /\ \A v \in Vals : \A u \in {TRUE, FALSE} :
       LET a == PSetR(heap, oids, Root, k, v, u)  b == SetR(heap, Root, k, v, u) IN a.st = b.st /\ a.h = b.h

-----------------------------------------------------------------------------
(* garbage collection: unreachable nodes go away unless the data manager    *)
(* still holds them (registered this transaction) or they were ever stored  *)
(* (their ids are oids and must never be reused)                            *)
PGC(h, r, st) == LET keep == Reach(h, ({Root} \cup SeqSet(r) \cup DOMAIN st) \cap DOMAIN h)
                 IN [x \in keep |-> h[x]]

\* position of a node in the tree: sequence of child indices from the root (<<>> = root)
RECURSIVE PathFrom(_, _, _)
PathFrom(h, from, id) ==          \* <<-1>> when id is not below `from`
  IF from = id THEN <<>>
  ELSE LET n == h[from] IN
       IF n.t = "L" THEN <<-1>>
       ELSE LET cands == {j \in 1..Len(n.kids) : PathFrom(h, n.kids[j], id) # <<-1>>} IN
            IF cands = {} THEN <<-1>>
            ELSE LET j == CHOOSE x \in cands : TRUE IN <<j>> \o PathFrom(h, n.kids[j], id)
PathOf(h, id) == PathFrom(h, Root, id)

PInit == /\ heap = EmptyTree /\ m = EmptyMap
         /\ act = [op |-> "init", k |-> 0, v |-> 0]
         /\ res = [impl |-> OK, abs |-> OK]
         /\ oids = {Root}
         /\ reg = <<>>
         /\ store = (Root :> [f |-> "none"])
         /\ cm = EmptyMap
         /\ ncommit = 0 /\ nops = 0

POp(h2, chg, m2, a, ri, ra) ==
  LET r2 == RegAdd(reg, chg, oids) IN
  /\ heap' = PGC(h2, r2, store)
  /\ reg' = r2
  /\ m' = m2 /\ act' = a /\ res' = [impl |-> ri, abs |-> ra]
  /\ nops' = nops + 1
  /\ UNCHANGED <<oids, store, cm, ncommit>>

PSetItem(k, v) ==
  LET r == PSetR(heap, oids, Root, k, v, FALSE) IN
  POp(r.h, r.chg, MapSet(m, k, v), [op |-> "setitem", k |-> k, v |-> v], OK, OK)
PDelItem(k) ==
  LET r == PDelR(heap, oids, Root, k) IN
  POp(IF r.st = 0 THEN heap ELSE r.h, IF r.st = 0 THEN <<>> ELSE r.chg,
      IF k \in Dom(m) THEN MapDel(m, k) ELSE m, [op |-> "delitem", k |-> k, v |-> 0],
      IF r.st = 0 THEN KeyErr ELSE OK, IF k \in Dom(m) THEN OK ELSE KeyErr)
\* insert(k, v) / setdefault(k, v): _BTree_set(unique) - a key that is there is left alone
PInsertU(k, v) ==
  LET r == PSetR(heap, oids, Root, k, v, TRUE) IN
  POp(r.h, r.chg, IF k \in Dom(m) THEN m ELSE MapSet(m, k, v), [op |-> "insertu", k |-> k, v |-> v], OK, OK)
\* popitem() / pop() of a set: minKey() (a read), then the removal of that key
PPopMin ==
  LET e == ImplEmpty(heap)
      k == ImplMinKey(heap)
      r == PDelR(heap, oids, Root, k) IN
  POp(IF e THEN heap ELSE r.h, IF e THEN <<>> ELSE r.chg,
      IF Dom(m) = {} THEN m ELSE MapDel(m, CHOOSE x \in Dom(m) : \A y \in Dom(m) : x <= y),
      [op |-> "popmin", k |-> 0, v |-> 0], IF e THEN KeyErr ELSE OK, IF Dom(m) = {} THEN KeyErr ELSE OK)
PClear ==
  POp([heap EXCEPT ![Root] = Inner(<<>>, <<>>, Nil)],
      IF Len(heap[Root].kids) > 0 \/ PImpl = "py" THEN <<Root>> ELSE <<>>,
      EmptyMap, [op |-> "clear", k |-> 0, v |-> 0], OK, OK)

-----------------------------------------------------------------------------
(* state capture *)
Inline(h, os, id) ==
  LET n == h[id] IN
  /\ n.t = "I" /\ Len(n.kids) = 1 /\ h[n.kids[1]].t = "L" /\ n.kids[1] \notin os
  /\ (id = Root \/ "EmbeddedNonRootLeaf" \in Dev)
\* a leaf's successor as written: the design drops it with the leaf's last key
NxOf(n) == IF Len(n.ks) = 0 /\ "GarbageKeepsNext" \notin Dev THEN Nil ELSE n.nx
\* [state, refs]: refs = persistent references in pickling order
Ser(h, os, id) ==
  LET n == h[id] IN
  IF n.t = "L"
    THEN [state |-> [f |-> "leaf", ks |-> n.ks, vs |-> n.vs, nx |-> NxOf(n)],
          refs |-> IF NxOf(n) = Nil THEN <<>> ELSE <<NxOf(n)>>]
  ELSE IF Len(n.kids) = 0 THEN [state |-> [f |-> "none"], refs |-> <<>>]
  ELSE IF Inline(h, os, id)
    THEN LET c == h[n.kids[1]] IN
         [state |-> [f |-> "emb", ks |-> c.ks, vs |-> c.vs, nx |-> NxOf(c)],
          refs |-> IF NxOf(c) = Nil THEN <<>> ELSE <<NxOf(c)>>]
  ELSE [state |-> [f |-> "node", kids |-> n.kids, seps |-> n.seps, fb |-> n.fb],
        refs |-> n.kids \o <<n.fb>>]

\* ObjectWriter: stack (top = last), nodes written so far, oid set, store, write log
RECURSIVE Drain(_, _, _, _, _, _)
Drain(h, stack, seen, os, st, log) ==
  IF Len(stack) = 0 THEN [seen |-> seen, os |-> os, st |-> st, log |-> log]
  ELSE LET o    == stack[Len(stack)]
           rest == SubSeq(stack, 1, Len(stack) - 1)
       IN IF o \in seen THEN Drain(h, rest, seen, os, st, log)
          ELSE LET s   == Ser(h, os, o)
                   nr  == AppendNew(<<>>, SelectSeq(s.refs, LAMBDA x : x \notin os))
                   os2 == os \cup SeqSet(nr)
                   st2 == [x \in DOMAIN st \cup {o} |-> IF x = o THEN s.state ELSE st[x]]
               IN Drain(h, rest \o nr, seen \cup {o}, os2, st2, Append(log, o))
RECURSIVE CommitAll(_, _, _, _)
CommitAll(h, r, j, acc) ==
  IF j > Len(r) THEN acc
  ELSE IF r[j] \in acc.seen THEN CommitAll(h, r, j + 1, acc)
  ELSE CommitAll(h, r, j + 1, Drain(h, <<r[j]>>, acc.seen, acc.os, acc.st, acc.log))
Written == CommitAll(heap, reg, 1, [seen |-> {}, os |-> oids, st |-> store, log |-> <<>>])

Commit ==
  LET w == Written IN
  /\ oids' = w.os
  /\ store' = w.st
  /\ reg' = <<>>
  /\ heap' = PGC(heap, <<>>, w.st)
  /\ cm' = m
  /\ act' = [op |-> "commit", k |-> 0, v |-> 0]
  /\ res' = [impl |-> OK, abs |-> OK]
  /\ ncommit' = ncommit + 1 /\ nops' = 0
  /\ UNCHANGED m

-----------------------------------------------------------------------------
(* a fresh reader: the heap the stored records describe.  Stored nodes keep *)
(* their ids; the leaf of an inline record gets the id 1000 + owner.        *)
RECURSIVE LoadIds(_, _)
LoadIds(st, frontier) ==
  LET refs(id) == IF id \notin DOMAIN st THEN {} ELSE
                  LET s == st[id] IN
                  IF s.f \in {"leaf", "emb"} THEN {s.nx} \ {Nil}
                  ELSE IF s.f = "node" THEN SeqSet(s.kids) \cup {s.fb}
                  ELSE {}
      nxt == frontier \cup UNION {refs(id) : id \in frontier}
  IN IF nxt = frontier THEN frontier ELSE LoadIds(st, nxt)
StoredNode(st, id) ==
  LET s == st[id] IN
  IF s.f = "leaf" THEN Leaf(s.ks, s.vs, s.nx)
  ELSE IF s.f = "emb" THEN Inner(<<1000 + id>>, <<0>>, 1000 + id)
  ELSE IF s.f = "node" THEN Inner(s.kids, s.seps, s.fb)
  ELSE Inner(<<>>, <<>>, Nil)
LoadedFrom(st) ==
  LET ids  == LoadIds(st, {Root})
      embs == {id \in ids \cap DOMAIN st : st[id].f = "emb"}
  IN [x \in ids \cup {1000 + id : id \in embs} |->
        IF x \in DOMAIN st /\ x \in ids THEN StoredNode(st, x)
        ELSE IF x >= 1000 /\ (x - 1000) \in embs
          THEN Leaf(st[x - 1000].ks, st[x - 1000].vs, st[x - 1000].nx)
        ELSE Leaf(<<>>, <<>>, Nil)]
Loaded == LoadedFrom(store)

(* abort: the registered objects are invalidated and come back from the     *)
(* store; everything else keeps its in-memory state                         *)
\* the heap after the objects `inv` (stored ones) were invalidated / turned into ghosts and came back
\* from their stored records; a record in the inline form rebuilds its leaf as a fresh object
FreshOf(id) == 2000 + id
RECURSIVE RenameFresh(_, _)
RenameFresh(h, S) == IF S = {} THEN h ELSE
  LET id == CHOOSE x \in S : TRUE
      nid == NewId(h)
      h2 == [x \in (DOMAIN h \ {FreshOf(id)}) \cup {nid} |->
               IF x = nid THEN h[FreshOf(id)]
               ELSE IF x = id THEN Inner(<<nid>>, <<0>>, nid) ELSE h[x]]
  IN RenameFresh(h2, S \ {id})
Reloaded(h, inv) ==
  LET embs == {id \in inv : store[id].f = "emb"}
      h1 == [x \in DOMAIN h \cup {FreshOf(id) : id \in embs} |->
               IF x >= 2000 THEN Leaf(store[x - 2000].ks, store[x - 2000].vs, store[x - 2000].nx)
               ELSE IF x \in inv
                 THEN (IF store[x].f = "emb" THEN Inner(<<FreshOf(x)>>, <<0>>, FreshOf(x)) ELSE StoredNode(store, x))
                 ELSE h[x]]
  IN RenameFresh(h1, embs)

Abort ==
  /\ heap' = PGC(Reloaded(heap, SeqSet(reg)), <<>>, store)
  /\ reg' = <<>>
  /\ m' = cm
  /\ act' = [op |-> "abort", k |-> 0, v |-> 0]
  /\ res' = [impl |-> OK, abs |-> OK]
  /\ nops' = 0
  /\ UNCHANGED <<oids, store, cm, ncommit>>

(* C05: eviction.  Only a stored object that this transaction has not changed can be turned   *)
(* into a ghost; the next access loads its stored record.                                     *)
Evictable == {id \in oids \cap DOMAIN heap \cap DOMAIN store : ~InSeq(reg, id)}
EvictedHeap(S) == PGC(Reloaded(heap, S \cap Evictable), reg, store)
Evict(S, what) ==
  /\ heap' = EvictedHeap(S)
  /\ act' = [op |-> what, k |-> 0, v |-> 0]
  /\ res' = [impl |-> OK, abs |-> OK]
  /\ UNCHANGED <<m, oids, reg, store, cm, ncommit, nops>>
PNext == \/ (nops < MaxOps /\ \E k \in Keys : (\E v \in Vals : PSetItem(k, v) \/ PInsertU(k, v)) \/ PDelItem(k))
         \/ (nops < MaxOps /\ PPopMin)
         \/ (nops < MaxOps /\ PClear)
         \/ (ncommit < MaxCommits /\ nops > 0 /\ Commit)
         \/ (nops > 0 /\ ncommit < MaxCommits /\ Abort)
PSpec == PInit /\ [][PNext]_pvars

-----------------------------------------------------------------------------
(* C04 *)
HSound(h) ==
  /\ ChainIds(h, h[Root].fb, Cardinality(DOMAIN h) + 1) = Descend(h, Root)
  /\ Sorted(ChainK(h, h[Root].fb, Cardinality(DOMAIN h)))
  /\ \A id \in Reach(h, {Root}) : id # Root => NLen(h[id]) > 0
  /\ InRange(h, Root, 0, 0)
HItems(h) == <<ChainK(h, h[Root].fb, Cardinality(DOMAIN h)), ChainV(h, h[Root].fb, Cardinality(DOMAIN h))>>
\* right after a commit a fresh reader sees a sound tree with exactly the writer's contents
ReloadOK == (Len(reg) = 0 /\ nops = 0 /\ ncommit > 0 /\ act.op = "commit") =>
              LET L == Loaded IN
              /\ HSound(L)
              /\ HItems(L) = <<AbsKeys(m), AbsVals(m)>>
              /\ Render(L, Root) = Render(heap, Root)
\* after an abort the writer shows the last committed contents, in a sound tree
AbortOK == act.op = "abort" =>
              /\ HSound(heap)
              /\ HItems(heap) = <<AbsKeys(cm), AbsVals(cm)>>
\* the writer itself always refines the sorted map
WriterOK == HItems(heap) = <<AbsKeys(m), AbsVals(m)>> /\ HSound(heap)
\* every stored reference resolves
RefsOK == \A id \in LoadIds(store, {Root}) : id \in DOMAIN store

\* evicting everything evictable changes nothing: same tree, sound, same items
EvictTransparent ==
  LET h2 == EvictedHeap(Evictable) IN
  /\ Render(h2, Root) = Render(heap, Root)
  /\ HSound(h2)
  /\ HItems(h2) = HItems(heap)

PView == <<heap, m, oids, reg, store, cm, ncommit, nops, act.op = "commit", act.op = "abort">>
=============================================================================
