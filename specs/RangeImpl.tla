------------------------------ MODULE RangeImpl ------------------------------
(***************************************************************************)
(* C02: range searches and lazy sequences, as implemented, against what is *)
(* promised (SortedMap!RangeKeys / MinKeySpec / MaxKeySpec).               *)
(*                                                                         *)
(* C flavour : BTree_findRangeEnd, BTree_rangeSearch, BTree_maxminKey,     *)
(*             BTreeItems_length / _seek / _slice, BTreeIter_next.         *)
(* Py flavour: _Tree.keys/_findbucket, _BucketBase._range, _TreeItems,     *)
(*             _Tree.minKey / maxKey.                                      *)
(* Offsets are 1-based here (the code's are 0-based).                      *)
(***************************************************************************)
EXTENDS BTreeImpl

SM == INSTANCE SortedMap

NoItems == [fb |-> Nil, first |-> 1, lb |-> Nil, last |-> 0]

\* ------------------------------------------------------------ C flavour
\* Bucket_findRangeEnd: offset of the range end in one leaf, 0 if none
BFind(ks, key, low, excl) ==
  LET i0 == Pos(ks, key)
      i  == IF Has(ks, key) THEN (IF excl THEN (IF low THEN i0 + 1 ELSE i0 - 1) ELSE i0)
            ELSE (IF low THEN i0 ELSE i0 - 1)
  IN IF 1 <= i /\ i <= Len(ks) THEN i ELSE 0

\* BTree_findRangeEnd; ds = deepest_smaller, dsTree = deepest_smaller_is_btree
RECURSIVE FRE(_, _, _, _, _, _, _)
FRE(h, self, key, low, excl, ds, dsTree) ==
  LET s    == h[self]
      i    == TreeSearch(s, key)
      cid  == s.kids[i]
      c    == h[cid]
      ds2  == IF i > 1 THEN s.kids[i-1] ELSE ds
      dsT2 == IF i > 1 THEN c.t = "I" ELSE dsTree
  IN IF c.t = "I" THEN FRE(h, cid, key, low, excl, ds2, dsT2)
     ELSE LET off == BFind(c.ks, key, low, excl) IN
          IF off > 0 THEN [f |-> TRUE, b |-> cid, off |-> off]
          ELSE IF low THEN (IF c.nx # Nil THEN [f |-> TRUE, b |-> c.nx, off |-> 1]
                            ELSE [f |-> FALSE, b |-> Nil, off |-> 0])
          ELSE IF ds2 # Nil
                 THEN LET pb == IF dsT2 THEN LastBucket(h, ds2) ELSE ds2 IN
                      [f |-> TRUE, b |-> pb, off |-> Len(h[pb].ks)]
          ELSE [f |-> FALSE, b |-> Nil, off |-> 0]

\* PreviousBucket(&current, first): walk the chain from `first`
RECURSIVE PrevBucket(_, _, _, _)
PrevBucket(h, first, cur, fuel) ==
  IF first = Nil \/ fuel = 0 THEN Nil
  ELSE IF h[first].nx = cur THEN first ELSE PrevBucket(h, h[first].nx, cur, fuel - 1)

\* BTree_rangeSearch: the low and the high end ([f, b, off]), then the BTreeItems record
CLo(h, min, xmin) ==
  LET r == h[Root] IN
  IF min # None THEN FRE(h, Root, min, TRUE, xmin, Nil, FALSE)
  ELSE IF ~xmin THEN [f |-> TRUE, b |-> r.fb, off |-> 1]
  ELSE IF Len(h[r.fb].ks) > 1 THEN [f |-> TRUE, b |-> r.fb, off |-> 2]
  ELSE IF (IF "C_RangeLenLt2" \in Dev THEN Len(r.kids) < 2 ELSE h[r.fb].nx = Nil)
         THEN [f |-> FALSE, b |-> Nil, off |-> 0]
  ELSE [f |-> TRUE, b |-> h[r.fb].nx, off |-> 1]
CHi(h, max, xmax) ==
  LET r == h[Root]
      lastb == LastBucket(h, Root) IN
  IF max # None THEN FRE(h, Root, max, FALSE, xmax, Nil, FALSE)
  ELSE IF ~xmax THEN [f |-> TRUE, b |-> lastb, off |-> Len(h[lastb].ks)]
  ELSE IF Len(h[lastb].ks) > 1 THEN [f |-> TRUE, b |-> lastb, off |-> Len(h[lastb].ks) - 1]
  ELSE IF (IF "C_RangeLenLt2" \in Dev THEN Len(r.kids) < 2 ELSE lastb = r.fb)
         THEN [f |-> FALSE, b |-> Nil, off |-> 0]
  ELSE LET pb == PrevBucket(h, r.fb, lastb, Cardinality(DOMAIN h)) IN
       [f |-> TRUE, b |-> pb, off |-> Len(h[pb].ks)]
CRange(h, min, max, xmin, xmax) ==
  LET r == h[Root] IN
  IF Len(r.kids) = 0 THEN NoItems ELSE
  LET lo == CLo(h, min, xmin)
      hi == CHi(h, max, xmax)
      hard == IF "C_RangeCmpBothOnly" \in Dev THEN (min # None /\ max # None) ELSE TRUE
  IN IF ~lo.f \/ ~hi.f THEN NoItems
     ELSE IF lo.b = hi.b /\ lo.off > hi.off THEN NoItems
     ELSE IF hard /\ lo.b # hi.b /\ h[lo.b].ks[lo.off] > h[hi.b].ks[hi.off] THEN NoItems
     ELSE [fb |-> lo.b, first |-> lo.off, lb |-> hi.b, last |-> hi.off]

\* BTreeIter_next applied until exhaustion: list(items) / iter*()
\* 777 marks "RuntimeError: the bucket being iterated changed size"
RECURSIVE CIter(_, _, _, _, _)
CIter(h, it, b, off, fuel) ==
  IF b = Nil \/ fuel = 0 THEN <<>>
  ELSE LET ks == h[b].ks IN
       IF off > Len(ks) THEN <<777>>
       ELSE IF b = it.lb /\ off >= it.last THEN <<ks[off]>>
       ELSE IF off + 1 > Len(ks) THEN <<ks[off]>> \o CIter(h, it, h[b].nx, 1, fuel - 1)
       ELSE <<ks[off]>> \o CIter(h, it, b, off + 1, fuel - 1)
CList(h, it) == IF it.fb = Nil THEN <<>> ELSE CIter(h, it, it.fb, it.first, 200)

\* BTreeItems_length
RECURSIVE CLenWalk(_, _, _, _, _)
CLenWalk(h, it, b, r, fuel) ==
  LET nx == h[b].nx IN
  IF nx = Nil \/ fuel = 0 THEN r
  ELSE IF nx = it.lb THEN r + Len(h[b].ks)
  ELSE CLenWalk(h, it, nx, r + Len(h[b].ks), fuel - 1)
CLen(h, it) ==
  IF it.fb = Nil THEN 0
  ELSE LET r0 == it.last + 1 - it.first IN
       IF it.fb = it.lb THEN r0
       ELSE LET r == CLenWalk(h, it, it.fb, r0, 200) IN IF r >= 0 THEN r ELSE 0

\* BTreeItems_seek from cursor cur = [b, off, p] (p = pseudoindex, 0-based like the code's)
\* to index i (0-based).  Result [ok, b, off, p] ; ok = "ok" | "IndexError" | "RuntimeError"
Cursor0(it) == [b |-> it.fb, off |-> it.first, p |-> 0]
RECURSIVE SeekRight(_, _, _, _, _, _, _)
SeekRight(h, it, b, off, p, delta, fuel) ==
  IF delta <= 0 \/ fuel = 0 THEN [ok |-> "ok", b |-> b, off |-> off, p |-> p, delta |-> delta]
  ELSE LET mx == Len(h[b].ks) - off        \* most we can move right in this bucket
           nb == h[b].nx IN
       IF delta <= mx
         THEN IF b = it.lb /\ off + delta > it.last
                THEN [ok |-> "IndexError", b |-> b, off |-> off, p |-> p, delta |-> 0]
                ELSE [ok |-> "ok", b |-> b, off |-> off + delta, p |-> p + delta, delta |-> 0]
       ELSE IF b = it.lb \/ nb = Nil THEN [ok |-> "IndexError", b |-> b, off |-> off, p |-> p, delta |-> 0]
       ELSE SeekRight(h, it, nb, 1, p + mx + 1, delta - (mx + 1), fuel - 1)
RECURSIVE SeekLeft(_, _, _, _, _, _, _)
SeekLeft(h, it, b, off, p, delta, fuel) ==
  IF delta >= 0 \/ fuel = 0 THEN [ok |-> "ok", b |-> b, off |-> off, p |-> p, delta |-> delta]
  ELSE LET co == off - 1 IN                \* the code's 0-based currentoffset
       IF (0 - delta) <= co
         THEN IF b = it.fb /\ off + delta < it.first
                THEN [ok |-> "IndexError", b |-> b, off |-> off, p |-> p, delta |-> 0]
                ELSE [ok |-> "ok", b |-> b, off |-> off + delta, p |-> p + delta, delta |-> 0]
       ELSE IF b = it.fb THEN [ok |-> "IndexError", b |-> b, off |-> off, p |-> p, delta |-> 0]
       ELSE LET pb == PrevBucket(h, it.fb, b, Cardinality(DOMAIN h)) IN
            IF pb = Nil THEN [ok |-> "IndexError", b |-> b, off |-> off, p |-> p, delta |-> 0]
            ELSE SeekLeft(h, it, pb, Len(h[pb].ks), p - (co + 1), delta + (co + 1), fuel - 1)
CSeek(h, it, cur, i) ==
  IF cur.b = Nil THEN [ok |-> "IndexError", b |-> cur.b, off |-> cur.off, p |-> cur.p]
  ELSE LET r1 == SeekRight(h, it, cur.b, cur.off, cur.p, i - cur.p, 200) IN
       IF r1.ok # "ok" THEN [ok |-> r1.ok, b |-> cur.b, off |-> cur.off, p |-> cur.p]
       ELSE LET r2 == SeekLeft(h, it, r1.b, r1.off, r1.p, i - r1.p, 200) IN
            IF r2.ok # "ok" THEN [ok |-> r2.ok, b |-> cur.b, off |-> cur.off, p |-> cur.p]
            ELSE IF r2.off < 1 \/ r2.off > Len(h[r2.b].ks)
                   THEN [ok |-> "RuntimeError", b |-> cur.b, off |-> cur.off, p |-> cur.p]
            ELSE [ok |-> "ok", b |-> r2.b, off |-> r2.off, p |-> r2.p]

\* BTreeItems_slice(ilow, ihigh) after Python's clipping against len -> a new BTreeItems
CSlice(h, it, ilow0, ihigh0) ==
  LET n     == CLen(h, it)
      ilow  == IF ilow0 < 0 THEN 0 ELSE IF ilow0 > n THEN n ELSE ilow0
      ihigh == IF ihigh0 < ilow THEN ilow ELSE IF ihigh0 > n THEN n ELSE ihigh0
  IN IF ilow = ihigh THEN NoItems
     ELSE LET a == CSeek(h, it, Cursor0(it), ilow)
              b == CSeek(h, it, a, ihigh - 1)
          IN IF a.ok # "ok" \/ b.ok # "ok" THEN [fb |-> Nil, first |-> 1, lb |-> Nil, last |-> 0, err |-> TRUE]
             ELSE [fb |-> a.b, first |-> a.off, lb |-> b.b, last |-> b.off]

\* BTree_maxminKey: 0 = ValueError
CMinKey(h, b) ==
  IF Len(h[Root].kids) = 0 THEN 0
  ELSE IF b = None THEN h[h[Root].fb].ks[1]
  ELSE LET r == FRE(h, Root, b, TRUE, FALSE, Nil, FALSE) IN IF r.f THEN h[r.b].ks[r.off] ELSE 0
CMaxKey(h, b) ==
  IF Len(h[Root].kids) = 0 THEN 0
  ELSE IF b = None THEN LET lb == LastBucket(h, Root) IN h[lb].ks[Len(h[lb].ks)]
  ELSE LET r == FRE(h, Root, b, FALSE, FALSE, Nil, FALSE) IN IF r.f THEN h[r.b].ks[r.off] ELSE 0

\* ----------------------------------------------------------- Py flavour
\* _BucketBase._range -> the slice keys[start:end]
PyBucketRange(ks, min, max, xmin, xmax) ==
  LET n == Len(ks)
      start == IF min = None THEN (IF xmin THEN 1 ELSE 0)
               ELSE IF Has(ks, min) THEN (Pos(ks, min) - 1) + (IF xmin THEN 1 ELSE 0)
               ELSE Pos(ks, min) - 1
      end == IF max = None THEN n - (IF xmax THEN 1 ELSE 0)
             ELSE IF Has(ks, max) THEN (Pos(ks, max) - 1) + (IF xmax THEN 0 ELSE 1)
             ELSE Pos(ks, max) - 1
  IN IF end <= start \/ end < 0 THEN <<>> ELSE SubSeq(ks, start + 1, end)

\* _TreeItems.__iter__ (with the per-chain handling of exclusive omitted bounds)
RECURSIVE PyIter(_, _, _, _, _, _, _, _, _)
PyIter(h, b, first, min, max, xmin, xmax, done, fuel) ==
  IF b = Nil \/ fuel = 0 THEN <<>>
  ELSE LET openMin == xmin /\ min = None
           openMax == xmax /\ max = None
           xm == IF "Py_ExcludePerBucket" \in Dev THEN xmin ELSE xmin /\ ~(openMin /\ b # first)
           xx == IF "Py_ExcludePerBucket" \in Dev THEN xmax ELSE xmax /\ ~(openMax /\ h[b].nx # Nil)
           part == PyBucketRange(h[b].ks, min, max, xm, xx)
       IN IF part = <<>> /\ done THEN <<>>
          ELSE part \o PyIter(h, h[b].nx, first, min, max, xmin, xmax, TRUE, fuel - 1)
PyKeys(h, min, max, xmin, xmax) ==
  IF Len(h[Root].kids) = 0 THEN <<>>
  ELSE LET b == IF min # None THEN FindLeaf(h, Root, min) ELSE h[Root].fb IN
       PyIter(h, b, b, min, max, xmin, xmax, FALSE, 200)

\* _Tree.minKey / maxKey
PyBucketMin(ks, b) == IF b = None THEN ks[1]
                      ELSE IF Has(ks, b) THEN b
                      ELSE IF Pos(ks, b) <= Len(ks) THEN ks[Pos(ks, b)] ELSE 0
PyBucketMax(ks, b) == IF b = None THEN ks[Len(ks)]
                      ELSE IF Has(ks, b) THEN b
                      ELSE IF Pos(ks, b) > 1 THEN ks[Pos(ks, b) - 1] ELSE 0
PyMinKey(h, b) ==
  IF Len(h[Root].kids) = 0 THEN 0
  ELSE IF b = None THEN h[h[Root].fb].ks[1]
  ELSE LET l0 == FindLeaf(h, Root, b)
           gap == "Py_MinKeyGap" \notin Dev /\ h[l0].nx # Nil /\ h[l0].ks[Len(h[l0].ks)] < b
       IN IF gap THEN h[h[l0].nx].ks[1] ELSE PyBucketMin(h[l0].ks, b)
RECURSIVE PySubMin(_, _)
PySubMin(h, id) == IF h[id].t = "L" THEN h[id].ks[1] ELSE h[h[id].fb].ks[1]
RECURSIVE PyMaxR(_, _, _)
PyMaxR(h, id, b) ==
  LET n == h[id] IN
  IF n.t = "L" THEN PyBucketMax(n.ks, b)
  ELSE IF b = None THEN PyMaxR(h, n.kids[Len(n.kids)], b)
  ELSE LET i0 == TreeSearch(n, b)
           i  == IF i0 > 1 /\ PySubMin(h, n.kids[i0]) > b THEN i0 - 1 ELSE i0
       IN PyMaxR(h, n.kids[i], b)
PyMaxKey(h, b) == IF Len(h[Root].kids) = 0 THEN 0 ELSE PyMaxR(h, Root, b)

\* ------------------------------------------------------------- promises
\* Bounds: None (0), every model key whether present or not (absent keys are gap
\* bounds), and one value above everything.  Instances use key sets that leave 1
\* unused, so that bound 1 lies below everything.
MaxKeyC == CHOOSE x \in Keys : \A k \in Keys : x >= k
Bounds == 0..(MaxKeyC + 1)
Queries == Bounds \X Bounds \X BOOLEAN \X BOOLEAN

RangeRefinesC ==
  \A q \in Queries :
    CList(heap, CRange(heap, q[1], q[2], q[3], q[4])) = SM!RangeKeys(Contents(heap), q[1], q[2], q[3], q[4])
RangeRefinesPy ==
  \A q \in Queries :
    PyKeys(heap, q[1], q[2], q[3], q[4]) = SM!RangeKeys(Contents(heap), q[1], q[2], q[3], q[4])
MinMaxOK ==
  \A b \in Bounds :
    /\ CMinKey(heap, b) = SM!MinKeySpec(Contents(heap), b)
    /\ CMaxKey(heap, b) = SM!MaxKeySpec(Contents(heap), b)
    /\ PyMinKey(heap, b) = SM!MinKeySpec(Contents(heap), b)
    /\ PyMaxKey(heap, b) = SM!MaxKeySpec(Contents(heap), b)

\* the lazy sequence of the C flavour: len, every index from every finger position, every slice
ItemsOK ==
  \A q \in Queries :
    LET it   == CRange(heap, q[1], q[2], q[3], q[4])
        want == SM!RangeKeys(Contents(heap), q[1], q[2], q[3], q[4])
        n    == Len(want)
    IN /\ CLen(heap, it) = n
       /\ \A i1 \in 0..n, i2 \in 0..n :        \* index n is one past the end
            LET c1 == CSeek(heap, it, Cursor0(it), i1)
                c2 == CSeek(heap, it, c1, i2)
            IN /\ (i1 < n => c1.ok = "ok" /\ heap[c1.b].ks[c1.off] = want[i1 + 1])
               /\ (i1 = n => c1.ok = "IndexError")
               /\ (i2 < n => c2.ok = "ok" /\ heap[c2.b].ks[c2.off] = want[i2 + 1])
               /\ (i2 = n => c2.ok = "IndexError")
SlicesOK ==
  \A q \in Queries :
    LET it   == CRange(heap, q[1], q[2], q[3], q[4])
        want == SM!RangeKeys(Contents(heap), q[1], q[2], q[3], q[4])
        n    == Len(want)
    IN \A lo \in 0..(n + 1), hi \in 0..(n + 1) :
         CList(heap, CSlice(heap, it, lo, hi)) = SubSeq(want, lo + 1, IF hi > n THEN n ELSE hi)
=============================================================================
