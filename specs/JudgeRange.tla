------------------------------ MODULE JudgeRange ------------------------------
(* code -> spec for C02: results of range queries, minKey/maxKey and lazy-  *)
(* sequence operations recorded from real containers, judged against the    *)
(* promise (SortedMap).  Ranks only; 0 = None / ValueError.                 *)
EXTENDS SortedMap, TLC, Json, IOUtils, Integers
Recs == JsonDeserialize(IOEnv.RECS)
VARIABLE i
JInit == i \in 1..Len(Recs)
JNext == UNCHANGED i
JSpec == JInit /\ [][JNext]_i

Want(r) == RangeKeys(r.cs, r.q[1], r.q[2], r.q[3] = 1, r.q[4] = 1)
ValOf(r, k) == r.vs[CHOOSE j \in 1..Len(r.cs) : r.cs[j] = k]
\* Python index normalisation: i in -n..n-1 is an element, anything else IndexError (rendered -1)
IdxSpec(w, j) == LET n == Len(w) IN
  IF j >= 0 /\ j < n THEN w[j + 1] ELSE IF j < 0 /\ j >= 0 - n THEN w[n + j + 1] ELSE -1
\* Python step-1 slice normalisation for integer bounds
Clip(x, n) == LET y == IF x < 0 THEN x + n ELSE x IN IF y < 0 THEN 0 ELSE IF y > n THEN n ELSE y
SliceSpec(w, lo, hi) == SubSeq(w, Clip(lo, Len(w)) + 1, Clip(hi, Len(w)))

RecOK(r) ==
  CASE r.kind = "keys"   -> r.got = Want(r)
    [] r.kind = "values" -> r.got = [j \in 1..Len(Want(r)) |-> ValOf(r, Want(r)[j])]
    [] r.kind = "items"  -> r.got = [j \in 1..Len(Want(r)) |-> <<Want(r)[j], ValOf(r, Want(r)[j])>>]
    [] r.kind = "minKey" -> r.got = MinKeySpec(r.cs, r.b)
    [] r.kind = "maxKey" -> r.got = MaxKeySpec(r.cs, r.b)
    [] r.kind = "len"    -> r.got = Len(Want(r))
    [] r.kind = "index"  -> \A j \in 1..Len(r.idx) : r.idx[j][2] = IdxSpec(Want(r), r.idx[j][1])
    [] r.kind = "slice"  -> r.got = SliceSpec(Want(r), r.lo, r.hi)
    \* byValue: r.nvs the values and r.min the bound as numbers (in units of 1/r.scale for the float families)
    [] r.kind = "byvalue" -> LET w == ByValueSpec(r.cs, r.nvs, r.min, r.norm = 1, r.scale)
                             IN r.got = [j \in 1..Len(w) |-> <<w[j][1], w[j][2]>>]
JOK == RecOK(Recs[i]) \/ (PrintT(<<"BAD", ToJson(i)>>) = FALSE)
=============================================================================
