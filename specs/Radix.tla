-------------------------------- MODULE Radix --------------------------------
(***************************************************************************)
(* C11: the sort behind multiunion (sorters.c): an LSB-first radix sort    *)
(* over W digits in base Base with the most significant digit distributed  *)
(* in sign-aware order for signed keys (0x80..0xff, 0x00..0x7f) and in      *)
(* plain ascending order for unsigned keys, a pass being skipped when all  *)
(* elements agree on that digit; then uniq.  (The quicksort used below the *)
(* 800-element threshold is a plain comparison sort and is bound to the    *)
(* code by the conformance runs on both sides of the threshold.)           *)
(* Elements are bit patterns 0..Base^W-1.                                  *)
(***************************************************************************)
EXTENDS Naturals, Integers, Sequences, FiniteSets, TLC

CONSTANTS W, Base, MaxLen,
          Dev       \* "SignedMSBForUnsigned" (the defect fixed in sorters.c),
                    \* "SignAwareFromDigit1" (sign-aware order applied too early)
RECURSIVE Pow(_, _)
Pow(b, e) == IF e = 0 THEN 1 ELSE b * Pow(b, e - 1)
Top == Pow(Base, W)
Digit(x, d) == (x \div Pow(Base, d)) % Base
Val(x, signed) == IF signed /\ x >= Top \div 2 THEN x - Top ELSE x

RECURSIVE Concat(_, _, _)
Concat(seq, d, order) ==      \* stable distribution on digit d, buckets visited in `order`
  IF order = <<>> THEN <<>>
  ELSE SelectSeq(seq, LAMBDA x : Digit(x, d) = order[1]) \o Concat(seq, d, Tail(order))
Asc == [j \in 1..Base |-> j - 1]
SignAware == [j \in 1..Base |-> IF j <= Base \div 2 THEN Base \div 2 + j - 1 ELSE j - 1 - Base \div 2]
AllSame(seq, d) == \A a, b \in 1..Len(seq) : Digit(seq[a], d) = Digit(seq[b], d)

RECURSIVE Passes(_, _, _)
Passes(seq, d, signedKeys) ==
  IF d = W THEN seq
  ELSE LET signAware == IF "SignAwareFromDigit1" \in Dev THEN d >= 1 ELSE d = W - 1
           useSigned == signAware /\ (signedKeys \/ "SignedMSBForUnsigned" \in Dev)
           order == IF useSigned THEN SignAware ELSE Asc
       IN Passes(IF AllSame(seq, d) THEN seq ELSE Concat(seq, d, order), d + 1, signedKeys)
RadixSort(seq, signedKeys) == Passes(seq, 0, signedKeys)

RECURSIVE Uniq(_)
Uniq(s) == IF Len(s) <= 1 THEN s
           ELSE IF s[1] = s[2] THEN Uniq(Tail(s)) ELSE <<s[1]>> \o Uniq(Tail(s))

(* The two arrays of sort_int_nodups: every executed pass distributes from `in` to `work` and swaps the   *)
(* two pointers, so after an odd number of executed passes the sorted data sits in the scratch array; *)
(* uniq(p, out, n) then squeezes duplicates out *and* brings the data back to the caller's array p.    *)
(* Deviation "UniqEarlyReturnNoCopy": uniq returns at once when there is no duplicate - without the    *)
(* copy, p keeps what it held before the last executed pass.                                          *)
RECURSIVE PassesBuf(_, _, _, _, _)
PassesBuf(a, b, inA, d, signedKeys) ==       \* a = caller's array, b = scratch; inA: the current data is in a
  IF d = W THEN [a |-> a, b |-> b, inA |-> inA]
  ELSE LET signAware == IF "SignAwareFromDigit1" \in Dev THEN d >= 1 ELSE d = W - 1
           useSigned == signAware /\ (signedKeys \/ "SignedMSBForUnsigned" \in Dev)
           order == IF useSigned THEN SignAware ELSE Asc
           cur == IF inA THEN a ELSE b
       IN IF AllSame(cur, d) THEN PassesBuf(a, b, inA, d + 1, signedKeys)
          ELSE LET nxt == Concat(cur, d, order) IN
               IF inA THEN PassesBuf(a, nxt, FALSE, d + 1, signedKeys)
               ELSE PassesBuf(nxt, b, TRUE, d + 1, signedKeys)
NoDup(sq) == \A j \in 1..(Len(sq) - 1) : sq[j] # sq[j + 1]
SortNoDups(seq, signedKeys) ==
  LET r == PassesBuf(seq, seq, TRUE, 0, signedKeys)
      sorted == IF r.inA THEN r.a ELSE r.b
  IN IF "UniqEarlyReturnNoCopy" \in Dev /\ NoDup(sorted) /\ ~r.inA THEN r.a ELSE Uniq(sorted)
\* the promise: the sorted duplicate-free union
Promise(seq, signedKeys) ==
  LET r == SortNoDups(seq, signedKeys) IN
  /\ \A j \in 1..(Len(r) - 1) : Val(r[j], signedKeys) < Val(r[j + 1], signedKeys)
  /\ {r[j] : j \in 1..Len(r)} = {seq[j] : j \in 1..Len(seq)}

VARIABLE s
Init == s \in UNION {[1..n -> 0..(Top - 1)] : n \in 0..MaxLen}
Next == UNCHANGED s
Spec == Init /\ [][Next]_s
SortOK == Promise(s, TRUE) /\ Promise(s, FALSE)
BufferOK == SortNoDups(s, TRUE) = Uniq(RadixSort(s, TRUE)) /\ SortNoDups(s, FALSE) = Uniq(RadixSort(s, FALSE))
=============================================================================
