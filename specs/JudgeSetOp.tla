------------------------------ MODULE JudgeSetOp ------------------------------
(* code -> spec for C10 / C12: recorded results of the set-algebra entry    *)
(* points (module functions, operators, in-place forms, weighted forms)     *)
(* judged against SetAlgebra's Layer A.                                     *)
EXTENDS SetAlgebra, Json, IOUtils
Recs == JsonDeserialize(IOEnv.RECS)
VARIABLE i
JInit == i \in 1..Len(Recs)
JNext == UNCHANGED i
JSpec == JInit /\ [][JNext]_i
Tup(s) == [j \in 1..Len(s) |-> <<s[j][1], s[j][2]>>]
RecOK(r) ==
  /\ r.ua /\ r.ub                       \* operands that are not the in-place target are unchanged
  /\ CASE r.fn = "union"        -> r.got = UnionSpec(r.a, r.b)
       [] r.fn = "intersection" -> r.got = InterSpec(r.a, r.b)
       [] r.fn = "difference"   -> r.got = DiffSpec(r.a, r.b)
       \* no kind is documented for ^: the C types answer with the left operand's kind, Python with a Set
       [] r.fn = "xor"          -> r.got = XorSpec(r.a, r.b) \/ r.got = <<"Set", XorSpec(r.a, r.b)[2]>>
       \* in-place forms: the target keeps its kind and holds the mathematical result
       [] r.fn = "ior"  -> r.got = <<r.a.kind, UnionSpec(r.a, r.b)[2]>>
       [] r.fn = "iand" -> r.got = <<r.a.kind, InterSpec(r.a, r.b)[2]>>
       [] r.fn = "isub" -> r.got = <<r.a.kind, KeysOnly(KeySet(r.a) \ KeySet(r.b))>>
       [] r.fn = "ixor" -> r.got = XorSpec(r.a, r.b)
       [] r.fn = "isdisjoint" -> r.got = DisjointSpec(r.a, r.b)
       \* reflected operators (a plain iterable on the left): rejected with TypeError, or the mathematical result
       [] r.fn \in {"ror", "rand", "rsub", "rxor"} ->
            \/ r.got[1] = "exc" /\ r.got[2] = "TypeError"
            \/ /\ r.got[1] # "exc" /\ Len(r.got) = 2
               /\ r.got[2] = KeysOnly(CASE r.fn = "ror"  -> KeySet(r.a) \cup KeySet(r.b)
                                        [] r.fn = "rand" -> KeySet(r.a) \cap KeySet(r.b)
                                        [] r.fn = "rsub" -> KeySet(r.a) \ KeySet(r.b)
                                        [] r.fn = "rxor" -> (KeySet(r.a) \ KeySet(r.b)) \cup (KeySet(r.b) \ KeySet(r.a)))
       [] r.fn = "wunion" -> r.got = WUnionSpec(r.a, r.b, r.w1, r.w2, r.one)
       [] r.fn = "winter" -> r.got = WInterSpec(r.a, r.b, r.w1, r.w2, r.one)
JOK == RecOK(Recs[i]) \/ (PrintT(<<"BAD", ToJson(i)>>) = FALSE)
=============================================================================
