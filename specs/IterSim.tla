------------------------------- MODULE IterSim -------------------------------
(* Iter with an observation variable: the JSON rendering of the last step   *)
(* (action, outcome, node structure), so that behaviours written by          *)
(* `tlc -simulate file=...` can be replayed on the real containers.          *)
EXTENDS Iter
VARIABLE obs
ObsOf == ToJson([phase |-> phase', n |-> nuse', act |-> act', out |-> out', pout |-> pout', to |-> Proj(GC(heap'), Root)])
SInit == IInit /\ obs = "init"
SNext == INextRel /\ obs' = ObsOf
SSpec == SInit /\ [][SNext]_<<ivars, obs>>
=============================================================================
