------------------------------ MODULE JudgeSweep ------------------------------
(***************************************************************************)
(* code -> spec for C09: one call of some kind with an argument of some    *)
(* class, executed side by side on the C and on the Python implementation  *)
(* of the same family, kind and shape.  Domain decides whether the         *)
(* argument is usable for the slot; the record must show, for both:        *)
(*   lookups   an unusable key is reported absent (KeyError, default,      *)
(*             False), a usable one is present or absent                   *)
(*   deletes   an unusable key is a KeyError (discard: nothing)            *)
(*   writes    an unusable key or value raises TypeError and changes       *)
(*             nothing, a usable one is stored                             *)
(*   bounds    an unusable range bound raises TypeError                    *)
(* and the two implementations must agree on the result, the exception     *)
(* class, the contents, the shape and the pickle.                          *)
(***************************************************************************)
EXTENDS Domain, Json, IOUtils
Recs == JsonDeserialize(IOEnv.RECS)
VARIABLE i
JInit == i \in 1..Len(Recs)
JNext == UNCHANGED i
JSpec == JInit /\ [][JNext]_i
\* (an object that merely has __index__ is not an integer: Domain rejects it for every native slot; as an object
\*  key it has default comparison, as an object value it is an object like any other)
Usable(r) == IF r.x.t = "noarg" THEN FALSE
             ELSE (IF r.role = "key" THEN KeyOutcome(r.code, r.x) ELSE ValOutcome(r.code, r.x)) # Rej
\* a key that cannot be ordered against the stored keys (object-keyed families): the specification promises nothing
\* about the outcome - a comparison, wherever one is made, raises TypeError - only that both implementations do alike
Incomp(r) == r.x.t = "incomp"
Want(r) ==
  LET u == Usable(r) IN
  CASE Incomp(r)         -> {"TypeError", "ok", "present", "absent", "KeyError", "ValueError"}
    [] r.cls = "lookup"  -> IF u THEN {"present", "absent"} ELSE {"absent"}
    \* removing is a write: an unusable key is rejected (TypeError) or reported absent (KeyError) -- by both alike
    [] r.cls = "delete"  -> IF u THEN {"ok", "KeyError"} ELSE {"KeyError", "TypeError"}
    [] r.cls = "discard" -> IF u THEN {"ok"} ELSE {"ok", "TypeError"}
    \* s -= [..., x], s &= [..., x]: an unusable member cannot be in the set -- skipped or rejected, by both alike
    [] r.cls = "filter"  -> IF u THEN {"ok"} ELSE {"ok", "TypeError"}
    \* calls without an argument: whatever the sorted map says, the same from both
    [] r.cls = "noarg"   -> {"ok", "KeyError", "ValueError", "IndexError"}
    [] r.cls = "write"   -> IF u THEN {"ok"} ELSE {"TypeError"}
    \* a range bound: an unusable one is a TypeError; an empty container may also just answer "nothing"
    [] r.cls = "bound"   -> IF u \/ r.x.t = "none" THEN {"ok", "ValueError"}          \* (None as a bound means "no bound")
                            ELSE IF r.shape = "empty" THEN {"TypeError", "ok", "ValueError"} ELSE {"TypeError"}
Why(r) ==
  IF r.c \notin Want(r) THEN "c-outcome"
  ELSE IF r.py \notin Want(r) THEN "py-outcome"
  ELSE IF Incomp(r) /\ r.c # r.py THEN "outcomes-differ"
  ELSE IF Incomp(r) /\ r.c = "TypeError" /\ ~(r.unchanged_c /\ r.unchanged_py) THEN "failed-call-changed-something"
  ELSE IF r.cls = "write" /\ ~Incomp(r) /\ ~Usable(r) /\ ~(r.unchanged_c /\ r.unchanged_py) THEN "rejected-write-changed-something"
  ELSE IF r.cls \in {"lookup", "bound"} /\ ~(r.unchanged_c /\ r.unchanged_py) THEN "read-changed-something"
  ELSE IF ~r.same_result THEN "results-differ"
  ELSE IF ~r.same_contents THEN "contents-differ"
  ELSE IF ~r.same_shape THEN "shapes-differ"
  ELSE IF ~r.same_pickle THEN "pickles-differ"
  ELSE "-"
JOK == Why(Recs[i]) = "-" \/ (PrintT(<<"BAD", ToJson([i |-> i, why |-> Why(Recs[i]), want |-> Want(Recs[i])])>>) = FALSE)
=============================================================================
