-------------------------------- MODULE Merge --------------------------------
(***************************************************************************)
(* C07: three-way leaf conflict resolution.                                *)
(*   MergeWalk   - the three-cursor walk as implemented (bucket_merge,     *)
(*                 Bucket/Set._p_resolveConflict): outcome, reason code,   *)
(*                 cursor positions                                        *)
(*   ResolveSpec - what is promised, declaratively                         *)
(* A leaf state is [items, nx]: items a key-sorted sequence of <<k, v>>    *)
(* (sets: v = 1), nx the successor link (0 = none).  "empty" (the None     *)
(* state) is items = <<>>.                                                 *)
(***************************************************************************)
EXTENDS Naturals, Integers, Sequences, FiniteSets, TLC

\* ----------------------------------------------------------- the walk
Act(i, s) == i <= Len(s)
P(i, s)   == IF Act(i, s) THEN i ELSE -1        \* cursor position as reported (-1 = exhausted)
MErr(T, r, i1, i2, i3) == [ok |-> FALSE, reason |-> r, p |-> <<P(i1, T.o), P(i2, T.c), P(i3, T.n)>>, res |-> <<>>]
MErrAt(r) == [ok |-> FALSE, reason |-> r, p |-> <<-1, -1, -1>>, res |-> <<>>]

RECURSIVE Tail23(_, _, _, _, _), Tail12(_, _, _, _, _), Tail13(_, _, _, _, _), Main(_, _, _, _, _)

Finish(T, i1, i2, i3, res) ==
  IF Act(i1, T.o) THEN MErr(T, 9, i1, i2, i3)
  ELSE LET r2 == res \o SubSeq(T.c, i2, Len(T.c)) \o SubSeq(T.n, i3, Len(T.n)) IN
       IF Len(r2) = 0 THEN MErrAt(10)
       ELSE [ok |-> TRUE, reason |-> -1, p |-> <<-1, -1, -1>>, res |-> r2]

Tail13(T, i1, i2, i3, res) ==
  IF Act(i1, T.o) /\ Act(i3, T.n) THEN
    IF T.o[i1][1] > T.n[i3][1] THEN Tail13(T, i1, i2, i3 + 1, Append(res, T.n[i3]))
    ELSE IF T.o[i1][1] = T.n[i3][1] /\ T.o[i1][2] = T.n[i3][2] THEN Tail13(T, i1 + 1, i2, i3 + 1, res)
    ELSE MErr(T, 8, i1, i2, i3)
  ELSE Finish(T, i1, i2, i3, res)

Tail12(T, i1, i2, i3, res) ==
  IF Act(i1, T.o) /\ Act(i2, T.c) THEN
    IF T.o[i1][1] > T.c[i2][1] THEN Tail12(T, i1, i2 + 1, i3, Append(res, T.c[i2]))
    ELSE IF T.o[i1][1] = T.c[i2][1] /\ T.o[i1][2] = T.c[i2][2] THEN Tail12(T, i1 + 1, i2 + 1, i3, res)
    ELSE MErr(T, 7, i1, i2, i3)
  ELSE Tail13(T, i1, i2, i3, res)

Tail23(T, i1, i2, i3, res) ==
  IF Act(i2, T.c) /\ Act(i3, T.n) THEN
    IF T.c[i2][1] = T.n[i3][1] THEN MErr(T, 6, i1, i2, i3)
    ELSE IF T.c[i2][1] > T.n[i3][1] THEN Tail23(T, i1, i2, i3 + 1, Append(res, T.n[i3]))
    ELSE Tail23(T, i1, i2 + 1, i3, Append(res, T.c[i2]))
  ELSE Tail12(T, i1, i2, i3, res)

Main(T, i1, i2, i3, res) ==
  IF ~(Act(i1, T.o) /\ Act(i2, T.c) /\ Act(i3, T.n)) THEN Tail23(T, i1, i2, i3, res) ELSE
  LET k1 == T.o[i1][1]  k2 == T.c[i2][1]  k3 == T.n[i3][1]
      v1 == T.o[i1][2]  v2 == T.c[i2][2]  v3 == T.n[i3][2] IN
  IF k1 = k2 THEN
    IF k1 = k3 THEN
      IF v1 = v2 THEN Main(T, i1 + 1, i2 + 1, i3 + 1, Append(res, T.n[i3]))
      ELSE IF v1 = v3 THEN Main(T, i1 + 1, i2 + 1, i3 + 1, Append(res, T.c[i2]))
      ELSE MErr(T, 1, i1, i2, i3)
    ELSE IF k1 > k3 THEN Main(T, i1, i2, i3 + 1, Append(res, T.n[i3]))           \* insert in new
    ELSE IF v1 = v2 THEN                                                        \* deleted in new
      IF i3 = 1 THEN MErr(T, 13, i1, i2, i3) ELSE Main(T, i1 + 1, i2 + 1, i3, res)
    ELSE MErr(T, 2, i1, i2, i3)
  ELSE IF k1 = k3 THEN
    IF k1 > k2 THEN Main(T, i1, i2 + 1, i3, Append(res, T.c[i2]))                \* insert in committed
    ELSE IF v1 = v3 THEN                                                        \* deleted in committed
      IF i2 = 1 THEN MErr(T, 13, i1, i2, i3) ELSE Main(T, i1 + 1, i2, i3 + 1, res)
    ELSE MErr(T, 3, i1, i2, i3)
  ELSE
    IF k2 = k3 THEN MErr(T, 4, i1, i2, i3)
    ELSE IF k1 > k2 THEN
      IF k2 > k3 THEN Main(T, i1, i2, i3 + 1, Append(res, T.n[i3]))
      ELSE Main(T, i1, i2 + 1, i3, Append(res, T.c[i2]))
    ELSE IF k1 > k3 THEN Main(T, i1, i2, i3 + 1, Append(res, T.n[i3]))
    ELSE MErr(T, 5, i1, i2, i3)

\* T = [o, c, n (item sequences), xo, xc, xn (successor links)]
MergeWalk(T) ==
  IF T.xc # T.xo \/ T.xn # T.xo THEN MErrAt(0)
  ELSE IF Len(T.c) = 0 \/ Len(T.n) = 0 THEN MErrAt(12)
  ELSE Main(T, 1, 1, 1, <<>>)

\* tree level: form = "leaf" (a Bucket/Set state, or a tree with one embedded leaf) | "multi"
TreeWalk(forms, T) ==
  IF "multi" \in {forms[1], forms[2], forms[3]} THEN MErrAt(11) ELSE MergeWalk(T)

\* ------------------------------------------------------- the promise
KeysOf(s) == {s[j][1] : j \in 1..Len(s)}
ValOf(s, k) == LET j == CHOOSE j \in 1..Len(s) : s[j][1] = k IN s[j][2]
RECURSIVE MSeqOfSet(_)
MSeqOfSet(S) == IF S = {} THEN <<>> ELSE
  LET mn == CHOOSE x \in S : \A y \in S : x <= y IN <<mn>> \o MSeqOfSet(S \ {mn})
\* keys a transaction touched: inserted, removed or given another value
Touched(o, x) == (KeysOf(x) \ KeysOf(o)) \cup (KeysOf(o) \ KeysOf(x))
                 \cup {k \in KeysOf(x) \cap KeysOf(o) : ValOf(x, k) # ValOf(o, k)}
Merged(T) ==
  LET tc == Touched(T.o, T.c)  tn == Touched(T.o, T.n)
      ks == (KeysOf(T.o) \ (tc \cup tn)) \cup (KeysOf(T.c) \cap tc) \cup (KeysOf(T.n) \cap tn)
      val(k) == IF k \in tc THEN ValOf(T.c, k) ELSE IF k \in tn THEN ValOf(T.n, k) ELSE ValOf(T.o, k)
      sk == MSeqOfSet(ks)
  IN [j \in 1..Len(sk) |-> <<sk[j], val(sk[j])>>]
\* refuse iff: successor links differ; a side emptied the leaf; the two change sets share
\* a key (equal inserts, equal deletions and equal value changes included); a side removed
\* the leaf's then-smallest key and kept nothing below it.  Otherwise: original + both
\* change sets.
Refuse(T) ==
  \/ T.xc # T.xo \/ T.xn # T.xo
  \/ Len(T.c) = 0 \/ Len(T.n) = 0
  \/ Touched(T.o, T.c) \cap Touched(T.o, T.n) # {}
  \/ Len(T.o) > 0 /\ (T.c[1][1] > T.o[1][1] \/ T.n[1][1] > T.o[1][1])
ResolveSpec(T) == IF Refuse(T) THEN [ok |-> FALSE, res |-> <<>>] ELSE [ok |-> TRUE, res |-> Merged(T)]

\* --------------------------------------------------------- properties
Sorted(s) == \A a \in 1..(Len(s) - 1) : s[a][1] < s[a + 1][1]
WalkEqualsSpec(T) ==
  LET w == MergeWalk(T)  s == ResolveSpec(T) IN
  /\ w.ok = s.ok
  /\ w.ok => w.res = s.res
  /\ w.reason # 10                                       \* unreachable: both sides non-empty
  /\ w.ok => /\ Sorted(w.res)                            \* never drops, invents or reorders
             /\ \A j \in 1..Len(w.res) :
                  \/ \E a \in 1..Len(T.o) : T.o[a] = w.res[j]
                  \/ \E a \in 1..Len(T.c) : T.c[a] = w.res[j]
                  \/ \E a \in 1..Len(T.n) : T.n[a] = w.res[j]
=============================================================================
