---------------------------- MODULE SetAlgebraMC ----------------------------
(* every pair of operands over a small universe is an initial state          *)
EXTENDS SetAlgebra
CONSTANTS Keys, Vals, Weights, ListLen
WeightsSmall == {-1, 0, 2}
WeightsWide == {-2, -1, 0, 1, 3}
ItemsOf(f) == LET ks == SASort(DOMAIN f) IN [j \in 1..Len(ks) |-> <<ks[j], f[ks[j]]>>]
SetOps  == UNION {{[kind |-> kd, items |-> ItemsOf([k \in S |-> 1])] : kd \in {"Set", "TreeSet"}} : S \in SUBSET Keys}
MapOps  == UNION {UNION {{[kind |-> kd, items |-> ItemsOf(f)] : kd \in {"Bucket", "BTree"}} : f \in [S -> Vals]} : S \in SUBSET Keys}
ListOps == UNION {{[kind |-> "list", items |-> [j \in 1..n |-> <<s[j], 1>>]] : s \in [1..n -> Keys]} : n \in 0..ListLen}
NoneOp  == {[kind |-> "none", items |-> <<>>]}
Operands == SetOps \cup MapOps \cup ListOps \cup NoneOp
WOperands == SetOps \cup MapOps \cup NoneOp
VARIABLES a, b, w1, w2
vars == <<a, b, w1, w2>>
Init == a \in Operands /\ b \in Operands /\ w1 = <<0, 1>> /\ w2 = <<0, 1>>
InitW == a \in WOperands /\ b \in WOperands /\ w1 \in Weights \X Weights /\ w2 \in Weights \X Weights
Next == UNCHANGED vars
Spec == Init /\ [][Next]_vars
SpecW == InitW /\ [][Next]_vars
RefinesOK == WalkRefines(a, b)
WeightedOK == WeightedRefines(a, b, w1, w2, 1) /\ WeightedRefines(a, b, w1, w2, 2)
=============================================================================
