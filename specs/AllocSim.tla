------------------------------ MODULE AllocSim ------------------------------
(* Alloc with an observation variable: the JSON rendering of the last call  *)
(* (action, fault index, allocations made, error, node structure), so that  *)
(* behaviours written by `tlc -simulate file=...` - deep trees, several     *)
(* failed calls in a row - can be replayed on the real containers.          *)
EXTENDS Alloc
VARIABLE obs
ObsOf == ToJson([act |-> act', F |-> ev'.F, n |-> ev'.n, err |-> ev'.err, to |-> Proj(heap', Root)])
SInit == AInit /\ obs = "init"
\* effective steps: adding absent keys - for every key once without a fault and twice with a randomly
\* chosen fault index (a walk then has failing calls throughout without being dominated by them) - and removing
\* present keys
SNextEff == \/ \E k \in Keys \ Dom(m), v \in Vals, F \in {0, RandomElement(1..3), RandomElement(1..MaxF)} : ASetItem(k, v, F)
            \/ \E k \in Dom(m) : ADelItem(k)
SNext == SNextEff /\ NoIdleF /\ obs' = ObsOf
SSpec == SInit /\ [][SNext]_<<avars, obs>>
=============================================================================
