------------------------------- MODULE Length -------------------------------
(***************************************************************************)
(* C19: BTrees.Length -- an integer cell whose conflict resolution adds    *)
(* both transactions' changes to the original value.                       *)
(***************************************************************************)
EXTENDS Integers, Sequences, TLC

Resolve(old, a, b) == a + b - old

(* The formula over all of Int (proved with TLAPS, see LengthProofs.tla;    *)
(* TLC cross-checks on a finite range).                                     *)
Commutes   == \A old, a, b \in -8..8 : Resolve(old, a, b) = Resolve(old, b, a)
AddsDeltas == \A old, d1, d2 \in -8..8 : Resolve(old, old + d1, old + d2) = old + d1 + d2

(* The cell as a state machine, with two optimistic transactions T1, T2     *)
(* that start from the same committed value.                                *)
CONSTANTS Range        \* values / deltas tried
Range2 == -2..2
Range3 == -3..3
VARIABLES stored,      \* committed value
          base,        \* value both transactions started from
          v1, v2,      \* working values of T1, T2
          net1, net2,  \* net change applied by change() calls (history variables)
          only1, only2,\* TRUE while the transaction used change() only
          phase        \* "run" | "c1" (T1 committed) | "done"
vars == <<stored, base, v1, v2, net1, net2, only1, only2, phase>>

Init == /\ stored \in Range /\ base = stored /\ v1 = stored /\ v2 = stored
        /\ net1 = 0 /\ net2 = 0 /\ only1 = TRUE /\ only2 = TRUE /\ phase = "run"
Change1(d) == phase = "run" /\ v1' = v1 + d /\ net1' = net1 + d /\ UNCHANGED <<stored, base, v2, net2, only1, only2, phase>>
Change2(d) == phase \in {"run", "c1"} /\ v2' = v2 + d /\ net2' = net2 + d /\ UNCHANGED <<stored, base, v1, net1, only1, only2, phase>>
Set1(x)    == phase = "run" /\ v1' = x /\ only1' = FALSE /\ UNCHANGED <<stored, base, v2, net1, net2, only2, phase>>
Set2(x)    == phase \in {"run", "c1"} /\ v2' = x /\ only2' = FALSE /\ UNCHANGED <<stored, base, v1, net1, net2, only1, phase>>
Commit1    == phase = "run" /\ stored' = v1 /\ phase' = "c1" /\ UNCHANGED <<base, v1, v2, net1, net2, only1, only2>>
\* T2 commits second: its serial is stale, so the stored value is _p_resolveConflict(base, stored, v2)
Commit2    == phase = "c1" /\ stored' = Resolve(base, stored, v2) /\ phase' = "done"
              /\ UNCHANGED <<base, v1, v2, net1, net2, only1, only2>>
Next == \/ \E d \in Range : Change1(d) \/ Change2(d) \/ Set1(d) \/ Set2(d)
        \/ Commit1 \/ Commit2
Spec == Init /\ [][Next]_vars
Bound == net1 \in -6..6 /\ net2 \in -6..6 /\ v1 \in -12..12 /\ v2 \in -12..12

\* concurrent increments and decrements are never lost
NoLostUpdate == (phase = "done" /\ only1 /\ only2) => stored = base + net1 + net2
\* and in general the result is the documented formula, independent of who commits first
FormulaOK == phase = "done" => stored = v1 + v2 - base
=============================================================================
