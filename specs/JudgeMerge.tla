------------------------------ MODULE JudgeMerge ------------------------------
(* code -> spec for C07: outcomes of _p_resolveConflict recorded from the   *)
(* real Bucket/Set/BTree/TreeSet classes, judged against Merge!TreeWalk     *)
(* (decision, merged state, reason code and cursor positions).              *)
EXTENDS Merge, Json, IOUtils
Recs == JsonDeserialize(IOEnv.RECS)
VARIABLE i
JInit == i \in 1..Len(Recs)
JNext == UNCHANGED i
JSpec == JInit /\ [][JNext]_i
RecOK(r) ==
  LET w == TreeWalk(r.forms, r) IN
  IF w.ok THEN r.got = <<"ok", w.res, r.xo>>
  ELSE r.got = <<"err", w.p[1], w.p[2], w.p[3], w.reason>>
JOK == RecOK(Recs[i]) \/ (PrintT(<<"BAD", ToJson(i)>>) = FALSE)
=============================================================================
