--------------------------------- MODULE Cmp ---------------------------------
(***************************************************************************)
(* Key comparisons and pins inside one call, as the C code performs them   *)
(* (object keys).  One *logical* comparison is COMPARE(lhs, rhs) of        *)
(* objectkeymacros.h: lhs.__lt__(rhs), and lhs.__eq__(rhs) when that was   *)
(* false.  An event records the node whose key vector is read, both        *)
(* operands (0 = the call's argument side is told apart by `argl`) and the *)
(* set of nodes pinned (PER_USE without PER_UNUSE yet) at that moment.     *)
(*                                                                         *)
(*   BTREE_SEARCH   BTreeModuleTemplate.c:316  probes data[i].key, i>lo    *)
(*   BUCKET_SEARCH  BucketTemplate.c:38        probes keys[i], lo<hi       *)
(*   _BTree_get     hand-over-hand: one interior node pinned at a time,    *)
(*                  the leaf together with the last interior node          *)
(*   _BTree_set     every node on the path stays pinned until its own      *)
(*                  return; on delete, the separator is compared with the  *)
(*                  argument on the way up: COMPARE(key, d->key)           *)
(* Used by C05 (pins), C14 (which comparison fails, and what is left),     *)
(* C16 (references).                                                       *)
(***************************************************************************)
EXTENDS BTreeImpl

\* argl: TRUE when the call's argument is the left operand (only the separator refresh)
Ev(node, lhs, rhs, argl, pinned) == [node |-> node, lhs |-> lhs, rhs |-> rhs, argl |-> argl, pinned |-> pinned]

RECURSIVE TSEv(_, _, _, _, _, _)
TSEv(id, seps, k, lo, hi, pin) ==
  LET i == (lo + hi) \div 2 IN
  IF i > lo
    THEN <<Ev(id, seps[i+1], k, FALSE, pin)>> \o
         (IF seps[i+1] < k THEN TSEv(id, seps, k, i, hi, pin)
          ELSE IF seps[i+1] > k THEN TSEv(id, seps, k, lo, i, pin)
          ELSE <<>>)
    ELSE <<>>
RECURSIVE BSEv(_, _, _, _, _, _)
BSEv(id, ks, k, lo, hi, pin) ==
  IF lo < hi
    THEN LET i == (lo + hi) \div 2 IN
         <<Ev(id, ks[i+1], k, FALSE, pin)>> \o
         (IF ks[i+1] < k THEN BSEv(id, ks, k, i + 1, hi, pin)
          ELSE IF ks[i+1] = k THEN <<>>
          ELSE BSEv(id, ks, k, lo, i, pin))
    ELSE <<>>

\* _BTree_get (get, [], in, has_key)
RECURSIVE GetEv(_, _, _)
GetEv(h, self, k) ==
  LET s == h[self] IN
  IF Len(s.kids) = 0 THEN <<>>
  ELSE LET c == s.kids[TreeSearch(s, k)] IN
       TSEv(self, s.seps, k, 0, Len(s.kids), {self}) \o
       (IF h[c].t = "I" THEN GetEv(h, c, k)
        ELSE BSEv(c, h[c].ks, k, 0, Len(h[c].ks), {self, c}))

\* _BTree_set with a value (insert / replace): searches only
RECURSIVE SetEv(_, _, _, _)
SetEv(h, self, k, above) ==
  LET s == h[self]
      pin == above \cup {self} IN
  IF Len(s.kids) = 0 THEN <<>>          \* a new empty leaf: nothing to compare
  ELSE LET c == s.kids[TreeSearch(s, k)] IN
       TSEv(self, s.seps, k, 0, Len(s.kids), pin) \o
       (IF h[c].t = "I" THEN SetEv(h, c, k, pin)
        ELSE BSEv(c, h[c].ks, k, 0, Len(h[c].ks), pin \cup {c}))

\* _BTree_set without a value (delete).  The key is compared with the separator of its slot *before*
\* the descent (every level with min > 0), so that no comparison follows a mutation.
\* Deviation "SepCmpAfterChild" (the code before the fix of D15): the comparison is made on the way
\* up, only when the key was found and the child is still non-empty.
RECURSIVE DelEv(_, _, _, _)
DelEv(h, self, k, above) ==
  LET s == h[self]
      pin == above \cup {self} IN
  IF Len(s.kids) = 0 THEN [ev |-> <<>>, found |-> FALSE, len |-> 0]
  ELSE LET i == TreeSearch(s, k)
           c == s.kids[i]
           sepev == IF i > 1 THEN <<Ev(self, k, s.seps[i], TRUE, pin)>> ELSE <<>>
           down == TSEv(self, s.seps, k, 0, Len(s.kids), pin) \o (IF "SepCmpAfterChild" \in Dev THEN <<>> ELSE sepev)
           r == IF h[c].t = "I" THEN DelEv(h, c, k, pin)
                ELSE [ev |-> BSEv(c, h[c].ks, k, 0, Len(h[c].ks), pin \cup {c}),
                      found |-> Has(h[c].ks, k),
                      len |-> Len(h[c].ks) - (IF Has(h[c].ks, k) THEN 1 ELSE 0)]
       IN IF ~r.found THEN [ev |-> down \o r.ev, found |-> FALSE, len |-> Len(s.kids)]
          ELSE [ev |-> down \o r.ev \o
                       (IF "SepCmpAfterChild" \in Dev /\ r.len > 0 THEN sepev ELSE <<>>),
                found |-> TRUE,
                len |-> Len(s.kids) - (IF r.len = 0 THEN 1 ELSE 0)]

\* composite calls: BTree_pop = _BTree_get, then (key found) _BTree_set without a value; BTree_setdefault = _BTree_get, then
\* (key missing) _BTree_set with the default; insert() = _BTree_set(unique); BTree_popitem = BTree_minKey() (no comparison)
\* + BTree_pop(that key); TreeSet_pop = BTree_minKey() + TreeSet_remove(that key)
HasKey(h, k) == Has(Contents(h), k)
MinOf(h) == IF Len(Contents(h)) = 0 THEN 0 ELSE Contents(h)[1]
ExtraOps == {"pop", "sdf", "ins", "popmin", "popmins"}
OpEv(h, op, k) ==
  IF op = "get" THEN GetEv(h, Root, k)
  ELSE IF op \in {"set", "ins"} THEN SetEv(h, Root, k, {})
  ELSE IF op = "del" THEN DelEv(h, Root, k, {}).ev
  ELSE IF op = "pop" THEN GetEv(h, Root, k) \o (IF HasKey(h, k) THEN DelEv(h, Root, k, {}).ev ELSE <<>>)
  ELSE IF op = "sdf" THEN GetEv(h, Root, k) \o (IF HasKey(h, k) THEN <<>> ELSE SetEv(h, Root, k, {}))
  ELSE IF op = "popmin" THEN (IF MinOf(h) = 0 THEN <<>> ELSE GetEv(h, Root, MinOf(h)) \o DelEv(h, Root, MinOf(h), {}).ev)
  ELSE (IF MinOf(h) = 0 THEN <<>> ELSE DelEv(h, Root, MinOf(h), {}).ev)      \* "popmins"

(* C14: the n-th comparison of a call raises.  What is left behind:                          *)
(*  - every comparison of get / set / delete precedes the first mutation, so the tree is     *)
(*    as before (FaultAtomic holds by construction of the event sequence -- the claim the    *)
(*    conformance run checks on the real code for every n);                                  *)
(*  - with "SepCmpAfterChild" the comparison on the way up at node f fails after the child   *)
(*    already changed: f and all its ancestors skip their own work (DelFail).                *)
RECURSIVE DelFail(_, _, _, _)
DelFail(h, self, k, f) ==       \* [h, st]: st = -1 once the failure has happened
  LET s == h[self] IN
  IF Len(s.kids) = 0 THEN [h |-> h, st |-> 0] ELSE
  LET i   == TreeSearch(s, k)
      cid == s.kids[i]
      c   == h[cid]
      r == IF c.t = "I" THEN DelFail(h, cid, k, f) ELSE DelR(h, cid, k)
      \* (a leaf child: the plain leaf-level removal of DelR applied to the leaf's parent is not
      \*  available separately; the leaf case is handled below)
  IN IF c.t = "L"
       THEN IF self = f /\ i > 1 /\ Has(c.ks, k) /\ Len(c.ks) > 1
              THEN [h |-> Upd(h, cid, Leaf(RemoveAt(c.ks, Pos(c.ks, k)), RemoveAt(c.vs, Pos(c.ks, k)), c.nx)), st |-> -1]
              ELSE DelR(h, self, k)
       ELSE IF r.st = -1 THEN r
       ELSE IF r.st = 0 THEN r
       ELSE IF self = f /\ i > 1 /\ NLen(r.h[cid]) > 0 THEN [h |-> r.h, st |-> -1]   \* child done, own work skipped
       ELSE \* no failure here: finish this level exactly as DelR does, given the child's result
            LET h1 == r.h  c1 == h1[cid]  clen == NLen(c1)
                s1 == IF i > 1 /\ clen > 0 /\ s.seps[i] = k
                        THEN Inner(s.kids, [s.seps EXCEPT ![i] = h1[c1.fb].ks[1]], s.fb) ELSE s
                h2  == IF r.st = 2 /\ i > 1 THEN DeleteNext(h1, LastBucket(h1, s.kids[i-1])) ELSE h1
                s2  == IF r.st = 2 /\ i = 1 THEN Inner(s1.kids, s1.seps, h1[cid].fb) ELSE s1
                st2 == IF r.st = 2 /\ i > 1 THEN 1 ELSE r.st
            IN IF clen > 0 THEN [h |-> Upd(h2, self, s2), st |-> st2]
               ELSE LET kids4 == RemoveAt(s2.kids, i)
                        seps4 == IF i = 1 /\ Len(s2.seps) > 1 THEN <<0>> \o SubSeq(s2.seps, 3, Len(s2.seps)) ELSE RemoveAt(s2.seps, i)
                    IN [h |-> Upd(h2, self, Inner(kids4, seps4, s2.fb)), st |-> st2]
\* heap predicates on an argument (BTreeImpl's are on the variable)
HChain(h) == ChainIds(h, h[Root].fb, Cardinality(DOMAIN h) + 1) = Descend(h, Root)
HNoEmpty(h) == \A id \in Reach(h, {Root}) : id # Root => NLen(h[id]) > 0
\* after a failed comparison the tree holds the previous contents or the completed change, and is sound
FaultAtomic ==
  "SepCmpAfterChild" \in Dev =>
    \A k \in Keys : \A f \in DOMAIN heap :
      LET r == DelFail(heap, Root, k, f)
          h2 == GC(r.h) IN
      r.st = -1 => /\ HChain(h2) /\ HNoEmpty(h2)
                   /\ Contents(h2) \in {Contents(heap), Contents(GC(DelR(heap, Root, k).h))}

\* the node a comparison reads is pinned while it is read
ReadPinned == \A op \in {"get", "set", "del"} \cup ExtraOps : \A k \in Keys \cup {0, 99} :
   LET ev == OpEv(heap, op, k) IN \A j \in 1..Len(ev) : ev[j].node \in ev[j].pinned
\* the events are exactly the comparisons the abstract search needs: a lookup finds k iff it is there
RECURSIVE PathFromC(_, _, _)
PathFromC(h, from, id) ==
  IF from = id THEN <<>>
  ELSE LET n == h[from] IN
       IF n.t = "L" THEN <<-1>>
       ELSE LET cands == {j \in 1..Len(n.kids) : PathFromC(h, n.kids[j], id) # <<-1>>} IN
            IF cands = {} THEN <<-1>>
            ELSE LET j == CHOOSE x \in cands : TRUE IN <<j>> \o PathFromC(h, n.kids[j], id)
EvOut(h, ev) == [j \in 1..Len(ev) |->
   [node |-> PathFromC(h, Root, ev[j].node), lhs |-> ev[j].lhs, rhs |-> ev[j].rhs, argl |-> ev[j].argl,
    pinned |-> {PathFromC(h, Root, x) : x \in ev[j].pinned}]]
\* spec -> code: expected events of every call on every shape (printed once per distinct state)
MaxKeyC == CHOOSE x \in Keys : \A y \in Keys : y <= x
DoneTree(h, op, k) ==
  IF op \in {"set", "sdf", "ins"} THEN Proj(GC(SetR(h, Root, k, 1, FALSE).h), Root)
  ELSE LET kk == IF op \in {"popmin", "popmins"} THEN MinOf(h) ELSE k
           r == DelR(h, Root, kk) IN Proj(GC(IF kk = 0 \/ r.st = 0 THEN h ELSE r.h), Root)
DumpEv == PrintT(<<"CE", ToJson([tree |-> Proj(heap, Root),
            calls |-> [op \in {"get", "set", "del"} \cup ExtraOps |->
                        [k \in 1..(IF op \in {"popmin", "popmins"} THEN 1 ELSE MaxKeyC + 1) |-> EvOut(heap, OpEv(heap, op, k))]],
            done |-> [op \in {"set", "del"} \cup ExtraOps |->
                        [k \in 1..(IF op \in {"popmin", "popmins"} THEN 1 ELSE MaxKeyC + 1) |-> DoneTree(heap, op, k)]]])>>)
=============================================================================
