------------------------------ MODULE JudgeCheck ------------------------------
(* code -> spec (C18): verdicts of the real t._check() and check.check(t) on  *)
(* pristine and corrupted trees, judged against the transcribed checkers and  *)
(* against the property (damage is rejected by one of the two tools).         *)
EXTENDS Check, TLC, Json, IOUtils
Recs == JsonDeserialize(IOEnv.RECS)
VARIABLE i
JInit == i \in 1..Len(Recs)
JNext == UNCHANGED i
JSpec == JInit /\ [][JNext]_i
V(b) == IF b THEN "accept" ELSE "reject"
Expect(r) == [pv |-> V(IF r.impl = "c" THEN CAccepts(r.tree) ELSE PyAccepts(r.tree)),
              wv |-> V(WAccepts(r.tree)),
              broken |-> Broken(r.tree)]
RecOK(r) == LET e == Expect(r) IN
  /\ r.pv = e.pv
  /\ r.wv = e.wv
  /\ e.broken => (r.pv = "reject" \/ r.wv = "reject")
  /\ r.pristine = 1 => (r.pv = "accept" /\ r.wv = "accept" /\ ~e.broken)
JOK == RecOK(Recs[i]) \/ (PrintT(<<"BAD", ToJson([i |-> i, expect |-> Expect(Recs[i])])>>) = FALSE)
=============================================================================
