----------------------------- MODULE SetAlgebra -----------------------------
(***************************************************************************)
(* C10 / C12: union, intersection, difference, symmetric difference and    *)
(* the weighted operations.                                                *)
(*   Layer A  what is documented (sets of keys, value formula, result kind,*)
(*            None rules, returned weight)                                 *)
(*   Layer B  SetOpWalk: operand adaptation (an arbitrary iterable is      *)
(*            sorted and made duplicate-free), the operand swap that puts  *)
(*            the mapping first, the two-cursor merge with the c1/c12/c2   *)
(*            selectors, copyRemaining                                     *)
(* An operand is [kind, items]; kind in {"none","Set","TreeSet","Bucket",  *)
(* "BTree","list"}; items a sequence of <<k, v>> (containers: key-sorted,  *)
(* distinct; "list": any order, repeats allowed, v ignored).               *)
(* Numbers: a value is a small integer; a weight and a result value are    *)
(* pairs <<hi, lo>> standing for hi*B + lo with a symbolic big base B, so  *)
(* that 64-bit weights stay inside TLC's integers (the formula is linear). *)
(* `one` is the numeric value of a set member / MERGE_DEFAULT (1, or 2     *)
(* when the record is scaled by 2 to carry halves for the float families). *)
(***************************************************************************)
EXTENDS Naturals, Integers, Sequences, FiniteSets, TLC

IsMap(o)  == o.kind \in {"Bucket", "BTree"}
IsNone(o) == o.kind = "none"
KeySet(o) == {o.items[j][1] : j \in 1..Len(o.items)}
RECURSIVE SASort(_)
SASort(S) == IF S = {} THEN <<>> ELSE
  LET mn == CHOOSE x \in S : \A y \in S : x <= y IN <<mn>> \o SASort(S \ {mn})
ValIn(o, k) == LET j == CHOOSE j \in 1..Len(o.items) : o.items[j][1] = k IN o.items[j][2]

\* ------------------------------------------------------------ Layer A
KeysOnly(S) == LET ks == SASort(S) IN [j \in 1..Len(ks) |-> <<ks[j], 1>>]
UnionSpec(a, b) ==
  IF IsNone(a) THEN <<"same", 2>> ELSE IF IsNone(b) THEN <<"same", 1>>
  ELSE <<"Set", KeysOnly(KeySet(a) \cup KeySet(b))>>
InterSpec(a, b) ==
  IF IsNone(a) THEN <<"same", 2>> ELSE IF IsNone(b) THEN <<"same", 1>>
  ELSE <<"Set", KeysOnly(KeySet(a) \cap KeySet(b))>>
DiffSpec(a, b) ==
  IF IsNone(a) \/ IsNone(b) THEN <<"same", 1>>
  ELSE LET ks == SASort(KeySet(a) \ KeySet(b)) IN
       IF IsMap(a) THEN <<"Bucket", [j \in 1..Len(ks) |-> <<ks[j], ValIn(a, ks[j])>>]>>
       ELSE <<"Set", KeysOnly(KeySet(a) \ KeySet(b))>>
\* isdisjoint(other): no common key (any iterable as the other operand)
DisjointSpec(a, b) == <<"bool", IF KeySet(a) \cap KeySet(b) = {} THEN 1 ELSE 0>>
\* the binary ^ is offered by the set types only and returns a set of the left operand's kind
XorSpec(a, b) == <<a.kind, KeysOnly((KeySet(a) \ KeySet(b)) \cup (KeySet(b) \ KeySet(a)))>>

\* weighted: value of key k contributed by operand o with weight w = <<hi, lo>>
NumOf(o, k, one) == IF IsMap(o) THEN ValIn(o, k) ELSE one
Scale(v, w) == <<v * w[1], v * w[2]>>
PAdd(x, y) == <<x[1] + y[1], x[2] + y[2]>>
Zero == <<0, 0>>
WItems(a, b, w1, w2, S, one) ==
  LET ks == SASort(S) IN
  [j \in 1..Len(ks) |->
     <<ks[j], PAdd(IF ks[j] \in KeySet(a) THEN Scale(NumOf(a, ks[j], one), w1) ELSE Zero,
                   IF ks[j] \in KeySet(b) THEN Scale(NumOf(b, ks[j], one), w2) ELSE Zero)>>]
\* result <<weight, kind, items>>; "same" results carry the operand index
WUnionSpec(a, b, w1, w2, one) ==
  IF IsNone(a) THEN <<IF IsNone(b) THEN Zero ELSE w2, "same", 2>>
  ELSE IF IsNone(b) THEN <<w1, "same", 1>>
  ELSE IF ~IsMap(a) /\ ~IsMap(b) THEN <<<<0, one>>, "Set", KeysOnly(KeySet(a) \cup KeySet(b))>>
  ELSE <<<<0, one>>, "Bucket", WItems(a, b, w1, w2, KeySet(a) \cup KeySet(b), one)>>
WInterSpec(a, b, w1, w2, one) ==
  IF IsNone(a) THEN <<IF IsNone(b) THEN Zero ELSE w2, "same", 2>>
  ELSE IF IsNone(b) THEN <<w1, "same", 1>>
  ELSE IF ~IsMap(a) /\ ~IsMap(b) THEN <<PAdd(w1, w2), "Set", KeysOnly(KeySet(a) \cap KeySet(b))>>
  ELSE <<<<0, one>>, "Bucket", WItems(a, b, w1, w2, KeySet(a) \cap KeySet(b), one)>>

\* ------------------------------------------------------------ Layer B
\* operand adaptation: containers iterate sorted; anything else is copied, sorted, de-duplicated
Adapt(o) == IF o.kind = "list" THEN KeysOnly(KeySet(o)) ELSE o.items

\* the merge loop; r accumulates <<k, value-or-1>>
RECURSIVE Walk(_, _, _, _, _, _, _, _, _, _, _, _)
Walk(s1, s2, i1, i2, merge, u1, u2, w1, w2, c, one, r) ==
  \* c = <<c1, c12, c2>>; u1/u2 = operand uses its values; absent values count `one` (MERGE_DEFAULT)
  LET v1 == IF u1 THEN s1[i1][2] ELSE one
      v2 == IF u2 THEN s2[i2][2] ELSE one IN
  IF i1 <= Len(s1) /\ i2 <= Len(s2) THEN
    IF s1[i1][1] < s2[i2][1]
      THEN Walk(s1, s2, i1 + 1, i2, merge, u1, u2, w1, w2, c, one,
                IF c[1] THEN Append(r, <<s1[i1][1], IF merge THEN Scale(v1, w1) ELSE <<0, 1>> >>) ELSE r)
    ELSE IF s1[i1][1] = s2[i2][1]
      THEN Walk(s1, s2, i1 + 1, i2 + 1, merge, u1, u2, w1, w2, c, one,
                IF c[2] THEN Append(r, <<s1[i1][1], IF merge THEN PAdd(Scale(v1, w1), Scale(v2, w2)) ELSE <<0, 1>> >>) ELSE r)
    ELSE Walk(s1, s2, i1, i2 + 1, merge, u1, u2, w1, w2, c, one,
              IF c[3] THEN Append(r, <<s2[i2][1], IF merge THEN Scale(v2, w2) ELSE <<0, 1>> >>) ELSE r)
  ELSE IF i1 <= Len(s1) THEN        \* copyRemaining(i1)
    IF c[1] THEN Walk(s1, s2, i1 + 1, i2, merge, u1, u2, w1, w2, c, one,
                      Append(r, <<s1[i1][1], IF merge THEN Scale(v1, w1) ELSE <<0, 1>> >>))
    ELSE r
  ELSE IF i2 <= Len(s2) THEN        \* copyRemaining(i2)
    IF c[3] THEN Walk(s1, s2, i1, i2 + 1, merge, u1, u2, w1, w2, c, one,
                      Append(r, <<s2[i2][1], IF merge THEN Scale(v2, w2) ELSE <<0, 1>> >>))
    ELSE r
  ELSE r

\* set_operation(s1, s2, usevalues1, usevalues2, w1, w2, c1, c12, c2) -> <<kind, items>>
SetOperation(a, b, uv1, uv2, w1, w2, c, one) ==
  LET u1 == uv1 /\ IsMap(a)
      u2 == uv2 /\ IsMap(b)
      merge == u1 \/ u2
      swap == merge /\ ~u1 /\ u2          \* put the mapping first
      A == IF swap THEN b ELSE a
      B == IF swap THEN a ELSE b
      W1 == IF swap THEN w2 ELSE w1
      W2 == IF swap THEN w1 ELSE w2
      C == IF swap THEN <<c[3], c[2], c[1]>> ELSE c
      U1 == IF swap THEN u2 ELSE u1
      U2 == IF swap THEN u1 ELSE u2
      r == Walk(Adapt(A), Adapt(B), 1, 1, merge, U1, U2, W1, W2, C, one, <<>>)
  IN <<IF merge THEN "Bucket" ELSE "Set", r>>

One == <<0, 1>>
\* the unweighted results carry plain values: difference keeps the first operand's values unscaled
Plain(items) == [j \in 1..Len(items) |-> <<items[j][1], items[j][2][2]>>]
UnionWalk(a, b) == IF IsNone(a) THEN <<"same", 2>> ELSE IF IsNone(b) THEN <<"same", 1>>
                   ELSE LET r == SetOperation(a, b, FALSE, FALSE, One, One, <<TRUE, TRUE, TRUE>>, 1) IN <<r[1], Plain(r[2])>>
InterWalk(a, b) == IF IsNone(a) THEN <<"same", 2>> ELSE IF IsNone(b) THEN <<"same", 1>>
                   ELSE LET r == SetOperation(a, b, FALSE, FALSE, One, One, <<FALSE, TRUE, FALSE>>, 1) IN <<r[1], Plain(r[2])>>
DiffWalk(a, b)  == IF IsNone(a) \/ IsNone(b) THEN <<"same", 1>>
                   ELSE LET r == SetOperation(a, b, TRUE, FALSE, One, <<0, 0>>, <<TRUE, FALSE, FALSE>>, 1) IN <<r[1], Plain(r[2])>>
WUnionWalk(a, b, w1, w2, one) ==
  IF IsNone(a) THEN <<IF IsNone(b) THEN Zero ELSE w2, "same", 2>>
  ELSE IF IsNone(b) THEN <<w1, "same", 1>>
  ELSE LET r == SetOperation(a, b, TRUE, TRUE, w1, w2, <<TRUE, TRUE, TRUE>>, one) IN
       <<<<0, one>>, r[1], IF r[1] = "Set" THEN Plain(r[2]) ELSE r[2]>>
WInterWalk(a, b, w1, w2, one) ==
  IF IsNone(a) THEN <<IF IsNone(b) THEN Zero ELSE w2, "same", 2>>
  ELSE IF IsNone(b) THEN <<w1, "same", 1>>
  ELSE LET r == SetOperation(a, b, TRUE, TRUE, w1, w2, <<FALSE, TRUE, FALSE>>, one) IN
       <<IF r[1] = "Set" THEN PAdd(w1, w2) ELSE <<0, one>>, r[1], IF r[1] = "Set" THEN Plain(r[2]) ELSE r[2]>>

\* ------------------------------------------------------------ refinement
WalkRefines(a, b) ==
  /\ UnionWalk(a, b) = UnionSpec(a, b)
  /\ InterWalk(a, b) = InterSpec(a, b)
  /\ (a.kind # "list" => DiffWalk(a, b) = DiffSpec(a, b))
WeightedRefines(a, b, w1, w2, one) ==
  (a.kind # "list" /\ b.kind # "list") =>
    /\ WUnionWalk(a, b, w1, w2, one) = WUnionSpec(a, b, w1, w2, one)
    /\ WInterWalk(a, b, w1, w2, one) = WInterSpec(a, b, w1, w2, one)
=============================================================================
