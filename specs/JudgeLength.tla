----------------------------- MODULE JudgeLength -----------------------------
(* code -> spec for C19.  Two record kinds:                                 *)
(*  "resolve": the real _p_resolveConflict on numbers written c1*B + c0 for *)
(*             a symbolic big base B (2^31, 2^63, 2^100 ...) -- the formula *)
(*             is linear, so it must hold coefficient-wise                  *)
(*  "trace":   a recorded history of the cell (set / change / call /        *)
(*             getstate / setstate / pickle round trip), small numbers      *)
EXTENDS Integers, Sequences, TLC, Json, IOUtils
Resolve(old, a, b) == a + b - old
Recs == JsonDeserialize(IOEnv.RECS)
VARIABLE i
JInit == i \in 1..Len(Recs)
JNext == UNCHANGED i
JSpec == JInit /\ [][JNext]_i

RECURSIVE Run(_, _, _)
\* events: [op, arg, got]; the cell's value after the event must be `after`
Run(ev, j, val) ==
  IF j > Len(ev) THEN TRUE
  ELSE LET e == ev[j]
           nv == CASE e.op = "set" -> e.arg
                   [] e.op = "change" -> val + e.arg
                   [] e.op = "setstate" -> e.arg
                   [] OTHER -> val          \* call, getstate, pickle, copy: no change
           ok == CASE e.op \in {"call", "getstate", "pickle", "copy"} -> e.got = val
                   [] OTHER -> TRUE
       IN ok /\ e.after = nv /\ Run(ev, j + 1, nv)

RecOK(r) ==
  CASE r.kind = "resolve" -> /\ r.got[1] = Resolve(r.old[1], r.a[1], r.b[1])
                             /\ r.got[2] = Resolve(r.old[2], r.a[2], r.b[2])
    [] r.kind = "trace" -> Run(r.events, 1, r.init)
JOK == RecOK(Recs[i]) \/ (PrintT(<<"BAD", ToJson(i)>>) = FALSE)
=============================================================================
