----------------------------- MODULE JudgeDomain -----------------------------
(* code -> spec for C13 / C09: what happened when a value of some class was  *)
(* offered as key or value through some entry point, judged against Domain. *)
(*  r.role "key"|"val", r.code the type code, r.x the offered value,         *)
(*  r.got  the observed outcome, r.unchanged contents before = after (for    *)
(*  rejected writes), r.lookup outcome of looking the key up: "absent" |      *)
(*  "present" | "n/a"                                                        *)
EXTENDS Domain, Json, IOUtils
Recs == JsonDeserialize(IOEnv.RECS)
VARIABLE i
JInit == i \in 1..Len(Recs)
JNext == UNCHANGED i
JSpec == JInit /\ [][JNext]_i
RecOK(r) ==
  LET want == IF r.role = "key" THEN KeyOutcome(r.code, r.x) ELSE ValOutcome(r.code, r.x) IN
  /\ r.got = want
  /\ (want = Rej => r.unchanged)
  \* looking up an unrepresentable key reports absence; a stored key is found
  /\ (r.role = "key" => r.lookup = IF want = Rej THEN "absent" ELSE "present")
Want(r) == IF r.role = "key" THEN KeyOutcome(r.code, r.x) ELSE ValOutcome(r.code, r.x)
JOK == RecOK(Recs[i]) \/ (PrintT(<<"BAD", ToJson([i |-> i, want |-> Want(Recs[i])])>>) = FALSE)
=============================================================================
