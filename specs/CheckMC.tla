------------------------------- MODULE CheckMC -------------------------------
(* C18 on every reachable shape of BTreeImpl: the transcribed checkers      *)
(* accept the tree the API built, and every single corruption that breaks   *)
(* it is rejected by _check() or by check.check(), in C and in Python.      *)
EXTENDS BTreeImpl
CONSTANT CDev
C == INSTANCE Check

RECURSIVE IdTree(_, _)
IdTree(h, id) == LET n == h[id] IN
  IF n.t = "L" THEN [t |-> "L", id |-> LeafIdx(h, id), ks |-> n.ks, vs |-> n.vs, nx |-> LeafIdx(h, n.nx)]
  ELSE [t |-> "I", kids |-> [j \in 1..Len(n.kids) |-> IdTree(h, n.kids[j])],
        seps |-> SubSeq(n.seps, 2, Len(n.seps)), fb |-> LeafIdx(h, n.fb)]

MaxKey == CHOOSE x \in Keys : \A y \in Keys : y <= x
MinKey == CHOOSE x \in Keys : \A y \in Keys : x <= y
U == Keys \cup {MinKey - 1, MaxKey + 1}          \* MinKey >= 2 (0 means "no bound")
T == IdTree(heap, Root)
P == (1..Len(C!ILeaves(T))) \cup {C!Foreign}
Muts == C!Mut(T, U, P, TRUE)

PristineAccepted == C!CAccepts(T) /\ C!PyAccepts(T) /\ C!WAccepts(T) /\ ~C!Broken(T)
\* every damaging single corruption is rejected by one of the two tools
DetectedC  == \A c \in Muts : C!Broken(c) => (~C!CAccepts(c) \/ ~C!WAccepts(c))
DetectedPy == \A c \in Muts : C!Broken(c) => (~C!PyAccepts(c) \/ ~C!WAccepts(c))
\* the two _check() implementations agree, and nothing sound is rejected
SameVerdict == \A c \in Muts : C!CAccepts(c) = C!PyAccepts(c)
NoFalseAlarm == \A c \in Muts : ~C!Broken(c) => (C!CAccepts(c) /\ C!PyAccepts(c) /\ C!WAccepts(c))
\* non-vacuity: every class of damage occurs among the corruptions of some tree
SomeBroken == Len(heap[Root].kids) < 2 \/ \E c \in Muts : C!Broken(c)

\* spec -> code: the corruptions of every distinct shape, printed once per state
DumpMuts == PrintT(<<"CK", ToJson([tree |-> T, muts |-> Muts])>>)
=============================================================================
