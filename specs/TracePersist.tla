----------------------------- MODULE TracePersist -----------------------------
(***************************************************************************)
(* code -> spec trace validation for C04: a batch of recorded histories    *)
(* (one per tid) of a stored container under the stand-in data manager.    *)
(* Every recorded event must be the step Persist allows: same result, same *)
(* node structure of the writer, the same objects registering themselves   *)
(* in the same order, the same number of records written at commit, and    *)
(* the same tree rebuilt by a fresh reader from the stored records.        *)
(* The specification runs with the deviations the code has (Dev), so a     *)
(* history that hits the recorded inline-leaf defect is accepted -- and    *)
(* recognisable by reader # writer -- while any other difference is not.   *)
(***************************************************************************)
EXTENDS Persist, IOUtils
Traces == JsonDeserialize(IOEnv.RECS)
VARIABLES tid, l, bad, why
tvars == <<pvars, tid, l, bad, why>>
Line == Traces[tid][l]

TInit == /\ PInit
         /\ tid \in 1..Len(Traces)
         /\ l = 1 /\ bad = 0 /\ why = "-"

NewRegPaths == LET new == SubSeq(reg', Len(reg) + 1, Len(reg'))
               IN [j \in 1..Len(new) |-> PathOf(heap, new[j])]
OpMatch(e) ==
  IF res'.impl # e.res THEN "result"
  ELSE IF Proj(heap', Root) # e.proj THEN "writer-structure"
  ELSE IF NewRegPaths # e.regs THEN "registrations"
  ELSE "-"
CommitMatch(e) ==
  LET L == LoadedFrom(store') IN
  IF Len(Written.log) # e.nwritten THEN "records-written"
  ELSE IF Proj(L, Root) # e.loaded THEN "reader-structure"
  ELSE IF HItems(L) # <<e.litems[1], e.litems[2]>> THEN "reader-contents"
  ELSE IF Proj(heap', Root) # e.proj THEN "writer-structure"
  ELSE "-"
AbortMatch(e) == IF Proj(heap', Root) # e.proj THEN "writer-structure-after-abort" ELSE "-"

TNext ==
  /\ bad = 0
  /\ l <= Len(Traces[tid])
  /\ LET e == Line IN
     \/ /\ e.op = "setitem" /\ PSetItem(e.k, e.v) /\ why' = OpMatch(e)
     \/ /\ e.op = "delitem" /\ PDelItem(e.k) /\ why' = OpMatch(e)
     \/ /\ e.op = "clear" /\ PClear /\ why' = OpMatch(e)
     \/ /\ e.op = "insertu" /\ PInsertU(e.k, e.v) /\ why' = OpMatch(e)
     \/ /\ e.op = "popmin" /\ PPopMin /\ why' = OpMatch(e)
     \/ /\ e.op = "commit" /\ Commit /\ why' = CommitMatch(e)
     \/ /\ e.op = "abort" /\ Abort /\ why' = AbortMatch(e)
  /\ bad' = IF why' = "-" THEN 0 ELSE l
  /\ l' = l + 1
  /\ UNCHANGED tid
TSpec == TInit /\ [][TNext]_tvars
\* judge protocol: JSpec / JOK
JSpec == TSpec
JOK == bad = 0 \/ (PrintT(<<"BAD", ToJson([tid |-> tid, line |-> bad, why |-> why])>>) = FALSE)
=============================================================================
