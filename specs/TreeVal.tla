------------------------------- MODULE TreeVal -------------------------------
(***************************************************************************)
(* Operators on tree *values*: the nested rendering of a container that    *)
(* BTreeImpl!Proj produces from a model heap and harness/proj.py produces   *)
(* from a real object:                                                     *)
(*   leaf     [t |-> "L", ks, vs, nx]     nx = index (descent order) of    *)
(*                                        the successor leaf, 0 = none,    *)
(*                                        999 = a leaf not in the tree     *)
(*   interior [t |-> "I", kids, seps, fb] seps has Len(kids)-1 entries     *)
(* Used to judge projections recorded from the real code (code -> spec).   *)
(***************************************************************************)
EXTENDS Naturals, Sequences, FiniteSets

RECURSIVE TLeaves(_)
TLeaves(p) == IF p.t = "L" THEN <<p>>
              ELSE LET RECURSIVE cat(_)
                       cat(j) == IF j > Len(p.kids) THEN <<>> ELSE TLeaves(p.kids[j]) \o cat(j + 1)
                   IN cat(1)
RECURSIVE TKeys(_)
TKeys(p) == IF p.t = "L" THEN p.ks
            ELSE LET RECURSIVE cat(_)
                     cat(j) == IF j > Len(p.kids) THEN <<>> ELSE TKeys(p.kids[j]) \o cat(j + 1)
                 IN cat(1)
RECURSIVE TVals(_)
TVals(p) == IF p.t = "L" THEN p.vs
            ELSE LET RECURSIVE cat(_)
                     cat(j) == IF j > Len(p.kids) THEN <<>> ELSE TVals(p.kids[j]) \o cat(j + 1)
                 IN cat(1)
RECURSIVE TNLeaves(_)
TNLeaves(p) == IF p.t = "L" THEN 1
               ELSE LET RECURSIVE sum(_)
                        sum(j) == IF j > Len(p.kids) THEN 0 ELSE TNLeaves(p.kids[j]) + sum(j + 1)
                    IN sum(1)

TSorted(s) == \A a \in 1..(Len(s) - 1) : s[a] < s[a + 1]

\* the leaf chain visits every leaf once, in descent order, and ends where the tree ends
TChainOK(p) == LET ls == TLeaves(p) IN
  \A j \in 1..Len(ls) : ls[j].nx = IF j = Len(ls) THEN 0 ELSE j + 1

\* firstbucket of every interior node = its leftmost leaf; `base` = number of leaves before this subtree
RECURSIVE TFirstOK(_, _)
TFirstOK(p, base) ==
  IF p.t = "L" THEN TRUE
  ELSE IF Len(p.kids) = 0 THEN p.fb = 0
  ELSE /\ p.fb = base + 1
       /\ LET RECURSIVE go(_, _)
              go(j, b) == IF j > Len(p.kids) THEN TRUE
                          ELSE TFirstOK(p.kids[j], b) /\ go(j + 1, b + TNLeaves(p.kids[j]))
          IN go(1, base)

RECURSIVE TNoEmpty(_, _)
TNoEmpty(p, isroot) ==
  IF p.t = "L" THEN Len(p.ks) > 0
  ELSE /\ (isroot \/ Len(p.kids) > 0)
       /\ \A j \in 1..Len(p.kids) : TNoEmpty(p.kids[j], FALSE)

RECURSIVE TKindsOK(_)
TKindsOK(p) ==
  IF p.t = "L" THEN Len(p.vs) = Len(p.ks)
  ELSE /\ Len(p.seps) = (IF Len(p.kids) = 0 THEN 0 ELSE Len(p.kids) - 1)
       /\ \A a, b \in 1..Len(p.kids) : p.kids[a].t = p.kids[b].t
       /\ \A j \in 1..Len(p.kids) : TKindsOK(p.kids[j])

\* every key within the half-open range promised by the separators above it (0 = unbounded)
RECURSIVE TInRange(_, _, _)
TInRange(p, lo, hi) ==
  IF p.t = "L" THEN \A j \in 1..Len(p.ks) : (lo = 0 \/ lo <= p.ks[j]) /\ (hi = 0 \/ p.ks[j] < hi)
  ELSE /\ \A j \in 1..Len(p.seps) : (lo = 0 \/ lo <= p.seps[j]) /\ (hi = 0 \/ p.seps[j] < hi)
       /\ TSorted(p.seps)
       /\ \A j \in 1..Len(p.kids) :
            TInRange(p.kids[j], IF j = 1 THEN lo ELSE p.seps[j - 1],
                     IF j = Len(p.kids) THEN hi ELSE p.seps[j])

RECURSIVE TSizeOK(_, _, _, _)
TSizeOK(p, isroot, maxleaf, maxint) ==
  IF p.t = "L" THEN Len(p.ks) <= maxleaf
  ELSE /\ (IF isroot THEN Len(p.kids) < 2 * maxint ELSE Len(p.kids) <= maxint)
       /\ \A j \in 1..Len(p.kids) : TSizeOK(p.kids[j], FALSE, maxleaf, maxint)

TSound(p, maxleaf, maxint) ==
  /\ TKindsOK(p)
  /\ TNoEmpty(p, TRUE)
  /\ TChainOK(p)
  /\ TFirstOK(p, 0)
  /\ TSorted(TKeys(p))
  /\ TInRange(p, 0, 0)
  /\ TSizeOK(p, TRUE, maxleaf, maxint)
=============================================================================
