------------------------------ MODULE TraceEvict ------------------------------
(***************************************************************************)
(* code -> spec trace validation for C05 (layer 1): histories of reads and *)
(* writes on a stored container with cache sweeps between the calls.       *)
(* Every event must be the step the specification allows:                  *)
(*   - results as the sorted map `m` promises (Layer A), for failing calls *)
(*     too; structure of the writer as Persist predicts; a sweep is        *)
(*     Persist!Evict (ghosts come back from their stored records);         *)
(*   - reads register nothing and declare no read dependency;              *)
(*   - after every call, normal or failing, no object is left pinned.      *)
(***************************************************************************)
EXTENDS Txn, IOUtils
SM == INSTANCE SortedMap
Traces == JsonDeserialize(IOEnv.RECS)
VARIABLES tid, l, bad, why, taint
tvars == <<pvars, tid, l, bad, why, taint>>
Line == Traces[tid][l]

TInit == /\ PInit
         /\ tid \in 1..Len(Traces)
         /\ l = 1 /\ bad = 0 /\ why = "-" /\ taint = 0

RECURSIVE NodeAt(_, _, _)
NodeAt(h, id, path) == IF Len(path) = 0 THEN id ELSE NodeAt(h, h[id].kids[path[1]], Tail(path))

RECURSIVE PathValid(_, _, _)
PathValid(h, id, path) ==
  \/ Len(path) = 0
  \/ /\ h[id].t = "I" /\ path[1] \in 1..Len(h[id].kids)
     /\ PathValid(h, h[id].kids[path[1]], Tail(path))

Has_(k) == k \in Dom(m)
Keys_ == AbsKeys(m)
\* what the call must answer, from Layer A
ExpRes(e) ==
  CASE e.op = "setitem"    -> {<<"ok">>}
    [] e.op = "delitem"    -> {IF Has_(e.k) THEN <<"ok">> ELSE <<"KeyError">>}
    [] e.op = "pop"        -> {IF Has_(e.k) THEN <<"v", m[e.k]>> ELSE <<"KeyError">>}
    [] e.op = "setdefault" -> {<<"v", IF Has_(e.k) THEN m[e.k] ELSE e.v>>}
    [] e.op = "clear"      -> {<<"ok">>}
    [] e.op = "badwrite"   -> {<<"TypeError">>}
    [] e.op = "get"        -> {<<"v", IF Has_(e.k) THEN m[e.k] ELSE e.v>>}
    [] e.op = "getitem"    -> {IF Has_(e.k) THEN <<"v", m[e.k]>> ELSE <<"KeyError">>}
    [] e.op = "contains"   -> {<<"v", IF Has_(e.k) THEN 1 ELSE 0>>}
    [] e.op = "badget"     -> {<<"v", e.v>>}
    [] e.op = "minkey"     -> {LET x == SM!MinKeySpec(Keys_, e.k) IN IF x = 0 THEN <<"ValueError">> ELSE <<"v", x>>}
    [] e.op = "maxkey"     -> {LET x == SM!MaxKeySpec(Keys_, e.k) IN IF x = 0 THEN <<"ValueError">> ELSE <<"v", x>>}
    [] e.op = "badbyvalue" -> {<<"TypeError">>}
    [] e.op = "badbound"   -> {<<"TypeError">>, <<"ValueError">>}      \* (which of the two is C09's business)
    [] e.op = "keys"       -> {<<"ks", SM!RangeKeys(Keys_, e.lo, e.hi, e.xlo, e.xhi)>>}
    [] e.op = "len"        -> {<<"v", Len(Keys_)>>}
    [] e.op = "bool"       -> {<<"v", IF Len(Keys_) > 0 THEN 1 ELSE 0>>}
    [] e.op = "haskey"     -> {<<"v", IF Has_(e.k) THEN 1 ELSE 0>>}
    [] e.op = "values"     -> {LET ks == SM!RangeKeys(Keys_, e.lo, e.hi, e.xlo, e.xhi) IN <<"ks", [j \in 1..Len(ks) |-> m[ks[j]]]>>}
    [] e.op = "index"      -> {LET ks == SM!RangeKeys(Keys_, e.lo, e.hi, e.xlo, e.xhi)
                                   i  == IF e.k < 0 THEN e.k + Len(ks) ELSE e.k
                               IN IF i < 0 \/ i >= Len(ks) THEN <<"IndexError">> ELSE <<"kv", ks[i + 1], m[ks[i + 1]]>>}
    [] e.op = "insertu"    -> {<<"v", IF Has_(e.k) THEN 0 ELSE 1>>}
    [] e.op = "popmin"     -> {IF Len(Keys_) = 0 THEN <<"KeyError">> ELSE <<"kv", Keys_[1], m[Keys_[1]]>>}
    [] e.op = "iter"       -> {<<"ks", Keys_>>}
    [] OTHER               -> {<<"ok">>}
IsRead(e) == e.op \in {"get", "getitem", "contains", "badget", "minkey", "maxkey", "badbound", "keys", "len", "iter", "badwrite",
                        "bool", "haskey", "values", "index", "badbyvalue"}
Stutter == UNCHANGED pvars

NewRegs == Len(reg') - Len(reg)
\* read dependencies a write declares (see Txn!RunOps)
ExpRC(e) ==
  LET op == IF e.op = "setitem" THEN <<"set", e.k, e.v>> ELSE IF e.op = "delitem" THEN <<"del", e.k, 0>> ELSE <<"clear", 0, 0>>
      decl == RCOf(heap, oids, op)
  IN Len(IF PImpl = "c" THEN SelectSeq(decl, LAMBDA x : ~InSeq(reg, x)) ELSE decl)

\* The writer's tree can disagree with the sorted map only through the code's named deviations
\* (TLC: WriterOK / EvictTransparent hold without them): a ghost came back from a stale record
\* (recorded finding D18).  From then on only structure and pins are compared.
Tainted == ~(HItems(heap') = <<AbsKeys(m'), AbsVals(m')>> /\ HSound(heap'))
Match(e) ==
  IF e.sticky # <<>> THEN "pinned-after-return"
  ELSE IF e.op = "evict" /\ ~PathValid(heap, Root, e.path) THEN "evicted-node-is-not-in-the-specified-tree"
  ELSE IF e.op \in {"evict", "evictall"} THEN "-"
  ELSE IF e.op \in {"commit", "abort"} THEN (IF Proj(heap', Root) # e.proj THEN "writer-structure" ELSE "-")
  ELSE IF taint # 0 THEN (IF ~IsRead(e) /\ Proj(heap', Root) # e.proj THEN "writer-structure" ELSE "-")
  ELSE IF e.res \notin ExpRes(e) THEN "result"
  ELSE IF Proj(heap', Root) # e.proj THEN "writer-structure"
  ELSE IF NewRegs # e.nreg THEN "registrations"
  ELSE IF IsRead(e) /\ e.op # "badwrite" /\ e.nrc # 0 THEN "read-declares-dependency"
  ELSE IF e.op \in {"setitem", "delitem", "clear"} /\ e.nrc # ExpRC(e) THEN "read-dependencies"
  ELSE "-"

(* Recorded finding D35 (the Python implementation has no pins), attributed by the model.  A sweep inside a  *)
(* comparison of a write turns every evictable node into a ghost while the methods on the stack keep their   *)
(* local `data` lists (_base.py _Tree._set / _del).  Reading the code, what is then lost is                   *)
(*   - a change made to the inline (never stored) leaf of a ghosted node: the node is reloaded with a new     *)
(*     copy of that leaf and the change lands in the orphan;                                                  *)
(*   - what a delete does to an interior node through its local list: removal of an emptied child, separator *)
(*     refresh (inserts update interior nodes through self._data, read afresh; stored leaves are the same     *)
(*     objects after a reload, and a leaf's own methods read self._keys afresh after their search).           *)
(* Only a rejected event of exactly this kind is attributed to D35; any other is a violation.                 *)
RECURSIVE PathI(_, _, _)
PathI(h, self, k) == LET s == h[self] IN
  IF Len(s.kids) = 0 THEN {self}
  ELSE LET c == s.kids[TreeSearch(s, k)] IN
       IF h[c].t = "L" THEN {self} ELSE {self} \cup PathI(h, c, k)
D35Prone(e) ==
  /\ PImpl = "py" /\ e.swept = 1
  /\ e.op \in {"setitem", "delitem", "pop", "setdefault", "insertu", "popmin"}
  /\ LET ghosted == PathI(heap, Root, e.k) \cap Evictable
         leaf == FindLeaf(heap, Root, e.k)
     IN /\ ghosted # {}
        /\ \/ leaf # Nil /\ leaf \notin oids
           \/ /\ e.op \in {"delitem", "pop", "popmin"} /\ Has_(e.k)
              /\ LET r == PDelR(heap, oids, Root, e.k) IN \E id \in ghosted : r.h[id] # heap[id]

TNext ==
  /\ bad = 0
  /\ l <= Len(Traces[tid])
  /\ LET e == Line IN
     /\ \/ /\ e.op = "setitem" /\ PSetItem(e.k, e.v)
        \/ /\ e.op \in {"delitem", "pop"} /\ PDelItem(e.k)
        \/ /\ e.op = "setdefault" /\ (IF Has_(e.k) THEN Stutter ELSE PSetItem(e.k, e.v))
        \/ /\ e.op = "clear" /\ PClear
        \/ /\ e.op = "insertu" /\ PInsertU(e.k, e.v)
        \/ /\ e.op = "popmin" /\ PPopMin
        \/ /\ IsRead(e) /\ Stutter
        \/ /\ e.op = "commit" /\ Commit
        \/ /\ e.op = "abort" /\ Abort
        \/ /\ e.op = "evictall" /\ Evict(Evictable, "evictall")
        \/ /\ e.op = "evict" /\ (IF PathValid(heap, Root, e.path) THEN Evict({NodeAt(heap, Root, e.path)}, "evict") ELSE Stutter)
     /\ why' = LET w == Match(e) IN IF w # "-" /\ D35Prone(e) THEN "D35:" \o w ELSE w
  /\ bad' = IF why' = "-" THEN 0 ELSE l
  /\ taint' = IF taint # 0 THEN taint ELSE IF Tainted THEN l ELSE 0
  /\ l' = l + 1
  /\ UNCHANGED tid
TSpec == TInit /\ [][TNext]_tvars
JSpec == TSpec
JOK == /\ bad = 0 \/ (PrintT(<<"BAD", ToJson([tid |-> tid, line |-> bad, why |-> why])>>) = FALSE)
       /\ (taint = 0 \/ taint # l - 1) \/ (PrintT(<<"BAD", ToJson([tid |-> tid, line |-> taint, why |-> "D18-taint"])>>) = FALSE)
=============================================================================
