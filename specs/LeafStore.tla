------------------------------ MODULE LeafStore ------------------------------
(***************************************************************************)
(* C04 at the level of contents, for every kind of container and the whole *)
(* mutating API: a container kept as one database record (a stand-alone    *)
(* Bucket or Set; a BTree or TreeSet small enough to be stored as one      *)
(* inline leaf - the case in which the *tree* must announce what happened  *)
(* to its oid-less bucket).                                                *)
(*                                                                         *)
(*   cur     what the writer sees           stored   the committed record  *)
(*   dirty   the object announced a change (registered with the data       *)
(*           manager) since the last transaction boundary                  *)
(*                                                                         *)
(* The rule: a call that changes the contents announces it.  Commit writes *)
(* announced objects only; abort restores announced objects only.  Then a  *)
(* fresh reader sees the writer's contents after every commit (ReaderOK)   *)
(* and the writer is back at the committed contents after every abort.     *)
(* Deviation "SilentOp": some change is not announced - TLC must refute.   *)
(***************************************************************************)
EXTENDS SortedMap, TLC

CONSTANTS LKeys, LVals, LDev
VARIABLES cur, stored, dirty, last
lvars == <<cur, stored, dirty, last>>

LInit == cur = SMEmpty /\ stored = SMEmpty /\ dirty = FALSE /\ last = "init"

Announces(op, before, after) == after # before /\ ~("SilentOp" \in LDev /\ op = "popitem")

LCall(op, k, v, ks) ==
  LET r == AbsCall(cur, op, k, v, ks) IN
  /\ cur' = r.m
  /\ dirty' = (dirty \/ Announces(op, cur, r.m))
  /\ last' = op
  /\ UNCHANGED stored
LCommit == /\ stored' = IF dirty THEN cur ELSE stored
           /\ dirty' = FALSE /\ last' = "commit" /\ UNCHANGED cur
LAbort  == /\ cur' = IF dirty THEN stored ELSE cur
           /\ dirty' = FALSE /\ last' = "abort" /\ UNCHANGED stored

Pairs == {<<k, v>> : k \in LKeys, v \in LVals}
LNext == \/ \E k \in LKeys, v \in LVals :
              \E op \in {"setitem", "insert", "setdefault", "delitem", "discard", "pop", "popdefault"} : LCall(op, k, v, <<>>)
         \/ \E op \in {"popitem", "clear"} : LCall(op, 0, 0, <<>>)
         \/ \E p \in Pairs : LCall("update", 0, 0, <<p>>)
         \/ \E k \in LKeys : \E op \in {"ior", "isub", "iand", "ixor"} : LCall(op, 0, 0, <<k>>)
         \/ LCommit \/ LAbort
LSpec == LInit /\ [][LNext]_lvars

\* right after a commit a fresh reader (who sees `stored`) sees what the writer sees; right after an abort the writer
\* sees the committed contents
ReaderOK == last = "commit" => stored = cur
AbortOK  == last = "abort" => cur = stored
=============================================================================
