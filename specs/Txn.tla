--------------------------------- MODULE Txn ---------------------------------
(***************************************************************************)
(* C08: two transactions that started from the same committed tree, each   *)
(* on its own connection, committed one after the other under optimistic   *)
(* concurrency control with conflict resolution.                           *)
(*                                                                         *)
(* A scenario is (base tree, T1's operations, T2's operations); T1 commits *)
(* first.  Everything is an operator on values, so that it can be          *)
(* evaluated as an invariant on every reachable shape of BTreeImpl and on   *)
(* recorded scenarios alike:                                               *)
(*   RunOps     the operations on a connection's private copy of the tree  *)
(*              (Persist!PSetR / PDelR), with the nodes that register as    *)
(*              changed and the nodes declared as read dependencies         *)
(*              (PER_READCURRENT: every stored interior node a write        *)
(*              descends through; reads declare none)                       *)
(*   Commit2    the second commit against the store the first one left:    *)
(*              per written object a serial check, _p_resolveConflict on    *)
(*              mismatch (leaf: Merge!MergeWalk; tree node: only the        *)
(*              one-leaf inline form, else reason 11), then verification of *)
(*              the read dependencies                                       *)
(*   OutcomeOK  T2 fails, or a fresh reader loads a sound tree holding the  *)
(*              serial result or base + both disjoint key-level deltas      *)
(* Deviations (must be refuted): "NoReadCurrent" (writes declare nothing),  *)
(* "ReadCurrentLeafParentOnly" (only the node directly above the leaf).     *)
(***************************************************************************)
EXTENDS Persist
M == INSTANCE Merge

Off == 50        \* ids of nodes T2 created are moved out of the way of T1's

\* ---- operations: <<"set", k, v>> | <<"del", k, 0>> | <<"clear", 0, 0>>
\* read dependencies of a write to key k: stored interior nodes on the descent, root first
RECURSIVE RCPath(_, _, _, _)
RCPath(h, os, self, k) ==
  LET s == h[self] IN
  IF s.t = "L" THEN <<>>
  ELSE LET me == IF self \in os THEN <<self>> ELSE <<>> IN
       IF Len(s.kids) = 0 THEN me
       ELSE me \o RCPath(h, os, s.kids[TreeSearch(s, k)], k)
RCOf(h, os, op) ==
  IF "NoReadCurrent" \in Dev THEN <<>>
  ELSE IF op[1] = "clear" THEN <<>>
  ELSE IF op[1] = "del" /\ Len(h[Root].kids) = 0 /\ PImpl = "c" THEN <<>>     \* KeyError before the declaration
  ELSE LET p == RCPath(h, os, Root, op[2]) IN
       IF "ReadCurrentLeafParentOnly" \in Dev /\ Len(p) > 1 THEN <<p[Len(p)]>> ELSE p

RECURSIVE RunOps(_, _, _, _, _)
\* c = [h, reg, rc, res]; st0: the store at load time (its domain = stored ids, never collected)
RunOps(c, os, st0, ops, j) ==
  IF j > Len(ops) THEN c ELSE
  LET op == ops[j]
      \* cPersistence.c readCurrent(): only an object that is up to date (or pinned) is declared; one that
      \* this transaction already changed will be written, and serial-checked, anyway.  _base.py declares always.
      decl == RCOf(c.h, os, op)
      rc2 == AppendNew(c.rc, IF PImpl = "c" THEN SelectSeq(decl, LAMBDA x : ~InSeq(c.reg, x)) ELSE decl)
      step ==
        IF op[1] = "set" THEN
          LET r == PSetR(c.h, os, Root, op[2], op[3], FALSE) IN [h |-> r.h, chg |-> r.chg, res |-> OK]
        ELSE IF op[1] = "del" THEN
          LET r == PDelR(c.h, os, Root, op[2]) IN
          IF r.st = 0 THEN [h |-> c.h, chg |-> <<>>, res |-> KeyErr] ELSE [h |-> r.h, chg |-> r.chg, res |-> OK]
        ELSE [h |-> [c.h EXCEPT ![Root] = Inner(<<>>, <<>>, Nil)],
              chg |-> IF Len(c.h[Root].kids) > 0 \/ PImpl = "py" THEN <<Root>> ELSE <<>>, res |-> OK]
      reg2 == RegAdd(c.reg, step.chg, os)
  IN RunOps([h |-> PGC(step.h, reg2, st0), reg |-> reg2, rc |-> rc2, res |-> Append(c.res, step.res)],
            os, st0, ops, j + 1)

\* Layer A: the same operations on the sorted map
RECURSIVE AbsOps(_, _, _)
AbsOps(f, ops, j) ==
  IF j > Len(ops) THEN f ELSE
  LET op == ops[j] IN
  \* TLCEval: lazily evaluated function values nested through the recursion overflowed TLC's stack
  AbsOps(IF op[1] = "set" THEN MapSet(f, op[2], op[3])
                 ELSE IF op[1] = "del" THEN (IF op[2] \in Dom(f) THEN MapDel(f, op[2]) ELSE f)
                 ELSE EmptyMap, ops, j + 1)
\* net key-level change of a transaction: keys whose presence or value differs
Delta(f, g) == {k \in Dom(f) \cup Dom(g) : (k \in Dom(f)) # (k \in Dom(g)) \/ (k \in Dom(f) /\ k \in Dom(g) /\ f[k] # g[k])}
ApplyDelta(f, g, D) == [k \in (Dom(f) \ D) \cup (Dom(g) \cap D) |-> IF k \in D THEN g[k] ELSE f[k]]

\* ---- renaming of the nodes a connection created
Sh(x, keep) == IF x = Nil \/ x \in keep THEN x ELSE IF x >= 1000 THEN x + 1000 ELSE x + Off
Shift(h, keep) ==
  LET new == {Sh(x, keep) : x \in DOMAIN h}
      back(y) == IF y \in keep THEN y ELSE IF y >= 2000 THEN y - 1000 ELSE y - Off
  IN [y \in new |->
        LET n == h[back(y)] IN
        IF n.t = "L" THEN Leaf(n.ks, n.vs, Sh(n.nx, keep))
        ELSE Inner([j \in 1..Len(n.kids) |-> Sh(n.kids[j], keep)], n.seps, Sh(n.fb, keep))]

\* ---- conflict resolution
ItemsOf(s) == IF s.f = "none" THEN <<>> ELSE [j \in 1..Len(s.ks) |-> <<s.ks[j], s.vs[j]>>]
NxS(s) == IF s.f = "none" THEN Nil ELSE s.nx
FormOf(s) == IF s.f = "node" THEN "multi" ELSE "leaf"
\* [ok, state, reason]
Resolve(old, com, new) ==
  LET T == [o |-> ItemsOf(old), c |-> ItemsOf(com), n |-> ItemsOf(new), xo |-> NxS(old), xc |-> NxS(com), xn |-> NxS(new)]
      w == IF new.f = "leaf" THEN M!MergeWalk(T)
           ELSE M!TreeWalk(<<FormOf(old), FormOf(com), FormOf(new)>>, T)
  IN IF ~w.ok THEN [ok |-> FALSE, reason |-> w.reason, state |-> new]
     ELSE [ok |-> TRUE, reason |-> -1,
           state |-> [f |-> IF new.f = "leaf" THEN "leaf" ELSE "emb",
                      ks |-> [j \in 1..Len(w.res) |-> w.res[j][1]], vs |-> [j \in 1..Len(w.res) |-> w.res[j][2]],
                      nx |-> NxS(old)]]

\* ObjectWriter with the serial check.  acc = [seen, os, st, log, fail, resolved]
RECURSIVE Drain2(_, _, _, _, _)
Drain2(h, stack, acc, st0, changed1) ==
  IF Len(stack) = 0 \/ acc.fail # -1 THEN acc
  ELSE LET o    == stack[Len(stack)]
           rest == SubSeq(stack, 1, Len(stack) - 1)
       IN IF o \in acc.seen THEN Drain2(h, rest, acc, st0, changed1)
          ELSE LET s   == Ser(h, acc.os, o)
                   nr  == AppendNew(<<>>, SelectSeq(s.refs, LAMBDA x : x \notin acc.os))
                   os2 == acc.os \cup SeqSet(nr)
                   conflict == o \in changed1
                   rs  == IF conflict THEN Resolve(st0[o], acc.st[o], s.state) ELSE [ok |-> TRUE, reason |-> -1, state |-> s.state]
                   st2 == [x \in DOMAIN acc.st \cup {o} |-> IF x = o THEN rs.state ELSE acc.st[x]]
               IN Drain2(h, rest \o nr,
                         [seen |-> acc.seen \cup {o}, os |-> os2, st |-> IF rs.ok THEN st2 ELSE acc.st,
                          log |-> Append(acc.log, o), fail |-> IF rs.ok THEN -1 ELSE rs.reason,
                          resolved |-> IF conflict /\ rs.ok THEN acc.resolved \cup {o} ELSE acc.resolved],
                         st0, changed1)
RECURSIVE CommitAll2(_, _, _, _, _, _)
CommitAll2(h, r, j, acc, st0, changed1) ==
  IF j > Len(r) \/ acc.fail # -1 THEN acc
  ELSE IF r[j] \in acc.seen THEN CommitAll2(h, r, j + 1, acc, st0, changed1)
  ELSE CommitAll2(h, r, j + 1, Drain2(h, <<r[j]>>, acc, st0, changed1), st0, changed1)

\* ---- a scenario.  B = [os, st]: the committed base (stored ids, stored states); both
\* connections load it (LoadedFrom) and work on private copies
BaseLeaf(h) == IF Len(h[Root].kids) = 1 /\ h[h[Root].kids[1]].t = "L" THEN {h[Root].kids[1]} ELSE {}
\* a base in which every node is stored (lo: also the only leaf of a one-leaf tree)
BaseOf(h, lo) == LET os0 == DOMAIN h \ (IF lo THEN {} ELSE BaseLeaf(h)) IN
                 [os |-> os0, st |-> [id \in os0 |-> Ser(h, os0, id).state]]
Scenario(B, ops1, ops2) ==
  LET h0  == LoadedFrom(B.st)
      os0 == DOMAIN B.st \cap DOMAIN h0
      st0 == B.st
      c0  == [h |-> h0, reg |-> <<>>, rc |-> <<>>, res |-> <<>>]
      c1  == RunOps(c0, os0, st0, ops1, 1)
      c2  == RunOps(c0, os0, st0, ops2, 1)
      w1  == CommitAll(c1.h, c1.reg, 1, [seen |-> {}, os |-> os0, st |-> st0, log |-> <<>>])
      changed1 == w1.seen \cap os0                  \* stored objects T1 replaced (new serial)
      h2  == Shift(c2.h, os0)
      w2  == CommitAll2(h2, c2.reg, 1, [seen |-> {}, os |-> os0, st |-> w1.st, log |-> <<>>, fail |-> -1, resolved |-> {}],
                        st0, changed1)
      readfail == \E o \in SeqSet(c2.rc) : o \notin w2.seen /\ o \in changed1
      kind == IF w2.fail # -1 THEN "conflict" ELSE IF readfail THEN "readconflict" ELSE "ok"
  IN [kind |-> kind, reason |-> w2.fail, st |-> IF kind = "ok" THEN w2.st ELSE w1.st,
      h0 |-> h0, c1 |-> c1, c2 |-> c2, w1 |-> w1, nres |-> Cardinality(w2.resolved)]

\* the map a tree holds
BaseMap(h) == LET ks == HItems(h)[1]  vs == HItems(h)[2] IN [k \in SeqSet(ks) |-> vs[CHOOSE j \in 1..Len(ks) : ks[j] = k]]
Allowed(f, ops1, ops2) ==
  LET f1 == AbsOps(f, ops1, 1)  f2 == AbsOps(f, ops2, 1)
      d1 == Delta(f, f1)  d2 == Delta(f, f2)
  IN {AbsOps(f1, ops2, 1)} \cup (IF d1 \cap d2 = {} THEN {ApplyDelta(ApplyDelta(f, f1, d1), f2, d2)} ELSE {})
\* on an evaluated scenario s
OutcomeOKS(s, ops1, ops2) ==
  s.kind = "ok" =>
    LET L == LoadedFrom(s.st) IN
    /\ HSound(L)
    /\ \E g \in Allowed(BaseMap(s.h0), ops1, ops2) : HItems(L) = <<AbsKeys(g), AbsVals(g)>>
OutcomeOKB(B, ops1, ops2) == OutcomeOKS(Scenario(B, ops1, ops2), ops1, ops2)
OutcomeOK(h, lo, ops1, ops2) == OutcomeOKB(BaseOf(h, lo), ops1, ops2)
\* a conflict is never raised for nothing: when the first transaction changed nothing the second commits
NoSpuriousFailure(h, lo, ops1, ops2) ==
  LET s == Scenario(BaseOf(h, lo), ops1, ops2) IN
  Len(s.c1.reg) = 0 => s.kind = "ok"

\* ---- exhaustive: every reachable shape x every pair of one-operation transactions
Ops1 == {<<"set", k, v>> : k \in Keys, v \in Vals} \cup {<<"del", k, 0>> : k \in Keys} \cup {<<"clear", 0, 0>>}
Txns1 == {<<o>> : o \in Ops1}
LoChoices(h) == IF BaseLeaf(h) = {} THEN {TRUE} ELSE {TRUE, FALSE}
TxnOK == \A lo \in LoChoices(heap) : \A t1 \in Txns1 : \A t2 \in Txns1 : OutcomeOK(heap, lo, t1, t2)
TxnNoSpurious == \A lo \in LoChoices(heap) : \A t1 \in Txns1 : \A t2 \in Txns1 : NoSpuriousFailure(heap, lo, t1, t2)
\* debugging aid: the failing scenarios of the current shape
Failing == {<<lo, t1, t2>> \in LoChoices(heap) \X Txns1 \X Txns1 : ~OutcomeOK(heap, lo, t1, t2)}
ShowFailing == Failing = {} \/ PrintT(<<"FAILING", Failing>>) = FALSE
\* two-operation second transactions against one-operation first ones (and vice versa), sampled by simulation
Txns2 == {<<a, b>> : a \in Ops1, b \in Ops1}
TxnOK2 == \A lo \in LoChoices(heap) : \A t1 \in Txns1 : \A t2 \in Txns2 :
           OutcomeOK(heap, lo, t1, t2) /\ OutcomeOK(heap, lo, t2, t1)
\* non-vacuity: resolutions, conflicts and read conflicts all occur
SomeResolved == ~(\E t1 \in Txns1, t2 \in Txns1 : Scenario(BaseOf(heap, TRUE), t1, t2).nres > 0)
SomeReadConflict == ~(\E t1 \in Txns1, t2 \in Txns1 : Scenario(BaseOf(heap, TRUE), t1, t2).kind = "readconflict")

TxInit == PInit
TxNext == NextCore /\ UNCHANGED <<oids, reg, store, cm, ncommit, nops>>
TxSpec == TxInit /\ [][TxNext]_pvars
=============================================================================
