------------------------------ MODULE JudgeMulti ------------------------------
(* code -> spec for C11: multiunion results as ranks (order-preserving      *)
(* embedding of the run's key set), judged against the promise: strictly    *)
(* increasing, element set = union of all inputs, membership and a range    *)
(* query on the result behave as on a normal Set.                           *)
EXTENDS Naturals, Sequences, FiniteSets, TLC, Json, IOUtils
Recs == JsonDeserialize(IOEnv.RECS)
VARIABLE i
JInit == i \in 1..Len(Recs)
JNext == UNCHANGED i
JSpec == JInit /\ [][JNext]_i
SeqSet(q) == {q[j] : j \in 1..Len(q)}
RecOK(r) ==
  LET inputs == UNION {SeqSet(r.ops[j]) : j \in 1..Len(r.ops)} IN
  /\ r.kind = "Set"
  /\ \A j \in 1..(Len(r.got) - 1) : r.got[j] < r.got[j + 1]
  /\ SeqSet(r.got) = inputs
  /\ r.len = Cardinality(inputs)
  /\ \A j \in 1..Len(r.probe) : r.probe[j][2] = (IF r.probe[j][1] \in inputs THEN 1 ELSE 0)
  /\ SeqSet(r.range) = {x \in inputs : x >= r.lo /\ x <= r.hi}
  /\ \A j \in 1..(Len(r.range) - 1) : r.range[j] < r.range[j + 1]
JOK == RecOK(Recs[i]) \/ (PrintT(<<"BAD", ToJson(i)>>) = FALSE)
=============================================================================
