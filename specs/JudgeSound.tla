------------------------------ MODULE JudgeSound ------------------------------
(* code -> spec: projections of real trees (recorded after every call of a  *)
(* history) judged against TreeVal!TSound and the expected contents.        *)
EXTENDS TreeVal, TLC, Json, IOUtils
Recs == JsonDeserialize(IOEnv.RECS)
VARIABLE i
JInit == i \in 1..Len(Recs)
JNext == UNCHANGED i
JSpec == JInit /\ [][JNext]_i
RecOK(r) == /\ TSound(r.tree, r.maxleaf, r.maxint)
            /\ TKeys(r.tree) = r.keys        \* what iterating the real container yields
JOK == RecOK(Recs[i]) \/ (PrintT(<<"BAD", ToJson(i)>>) = FALSE)
=============================================================================
