---------------------------- MODULE LengthProofs ----------------------------
(* TLAPS: the resolution formula over all integers. *)
EXTENDS Integers, TLAPS

Resolve(old, a, b) == a + b - old

THEOREM Commutes == \A old, a, b \in Int : Resolve(old, a, b) = Resolve(old, b, a)
  BY DEF Resolve

THEOREM AddsDeltas == \A old, d1, d2 \in Int : Resolve(old, old + d1, old + d2) = old + d1 + d2
  BY DEF Resolve

\* resolving in either commit order gives the same stored value
THEOREM OrderIndependent ==
  \A old, d1, d2 \in Int :
     Resolve(old, old + d1, old + d2) = Resolve(old, old + d2, old + d1)
  BY DEF Resolve
=============================================================================
