------------------------------- MODULE TraceMap -------------------------------
(***************************************************************************)
(* code -> spec trace validation for C01/C09: a batch of recorded          *)
(* histories (one per tid).  Every recorded call must be a step the sorted *)
(* map allows: same result, same ordered contents afterwards.              *)
(* Trace line: [op, k, v, ks, res, keys, vals].                            *)
(***************************************************************************)
EXTENDS SortedMap, TLC, Json, IOUtils
Traces == JsonDeserialize(IOEnv.RECS)       \* sequence of traces
VARIABLES tid, l, m, bad
tvars == <<tid, l, m, bad>>
JInit == /\ tid \in 1..Len(Traces)
         /\ l = 1 /\ m = SMEmpty /\ bad = 0
Line == Traces[tid][l]
JNext == /\ bad = 0
         /\ l <= Len(Traces[tid])
         /\ LET e == Line
                r == AbsCall(m, e.op, e.k, e.v, e.ks)
                ok == /\ r.res = e.res
                      /\ SMKeys(r.m) = e.keys
                      /\ SMVals(r.m) = e.vals
            IN IF ok THEN /\ m' = r.m /\ l' = l + 1 /\ bad' = 0 /\ UNCHANGED tid
               ELSE /\ bad' = l /\ UNCHANGED <<tid, l, m>>
JSpec == JInit /\ [][JNext]_tvars
JOK == bad = 0 \/ (PrintT(<<"BAD", ToJson([tid |-> tid, line |-> bad])>>) = FALSE)
=============================================================================
