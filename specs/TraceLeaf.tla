------------------------------ MODULE TraceLeaf ------------------------------
(***************************************************************************)
(* code -> spec trace validation for C04 (contents level, whole API):      *)
(* histories recorded on a container that lives in the stand-in data       *)
(* manager as one record, cut into transactions.  Calls are judged like    *)
(* TraceMap's; at a commit a fresh reader's contents (rkeys, rvals) must   *)
(* be the writer's; after an abort the writer's contents must be the last  *)
(* committed ones (LeafStore: only announced changes are written / rolled  *)
(* back - so a change that was not announced shows here).                  *)
(* Trace line: [op, k, v, ks, res, keys, vals, rkeys, rvals].              *)
(***************************************************************************)
EXTENDS SortedMap, TLC, Json, IOUtils
Traces == JsonDeserialize(IOEnv.RECS)
VARIABLES tid, l, m, st, bad, why
tvars == <<tid, l, m, st, bad, why>>
JInit == /\ tid \in 1..Len(Traces)
         /\ l = 1 /\ m = SMEmpty /\ st = SMEmpty /\ bad = 0 /\ why = "-"
Line == Traces[tid][l]
Verdict(e) ==
  IF e.op = "commit"
    THEN IF ~(SMKeys(m) = e.keys /\ SMVals(m) = e.vals) THEN "commit-changed-the-writer"
         ELSE IF ~(SMKeys(m) = e.rkeys /\ SMVals(m) = e.rvals) THEN "reader-differs-after-commit"
         ELSE "-"
  ELSE IF e.op = "abort"
    THEN IF ~(SMKeys(st) = e.keys /\ SMVals(st) = e.vals) THEN "writer-not-restored-by-abort" ELSE "-"
  ELSE LET r == AbsCall(m, e.op, e.k, e.v, e.ks) IN
       IF r.res # e.res THEN "result"
       ELSE IF ~(SMKeys(r.m) = e.keys /\ SMVals(r.m) = e.vals) THEN "contents"
       ELSE "-"
JNext == /\ bad = 0
         /\ l <= Len(Traces[tid])
         /\ LET e == Line
                w == Verdict(e)
            IN /\ why' = w
               /\ IF w = "-"
                    THEN /\ m' = IF e.op = "commit" THEN m ELSE IF e.op = "abort" THEN st ELSE AbsCall(m, e.op, e.k, e.v, e.ks).m
                         /\ st' = IF e.op = "commit" THEN m ELSE st
                         /\ l' = l + 1 /\ bad' = 0
                    ELSE /\ bad' = l /\ UNCHANGED <<l, m, st>>
               /\ UNCHANGED tid
JSpec == JInit /\ [][JNext]_tvars
JOK == bad = 0 \/ (PrintT(<<"BAD", ToJson([tid |-> tid, line |-> bad, why |-> why])>>) = FALSE)
=============================================================================
