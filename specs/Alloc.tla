-------------------------------- MODULE Alloc --------------------------------
(***************************************************************************)
(* Layer B, allocation-granular: the insert path of the C implementation   *)
(* (_BTree_set -> _bucket_set -> Bucket_grow, BTree_grow -> bucket_split / *)
(* BTree_split, BTree_split_root) with the *capacity* of every vector      *)
(* (Bucket.size, BTree.size) as state and one event per call of            *)
(* BTree_Malloc / BTree_Realloc.  A call is run with a fault index F: the  *)
(* F-th allocation of the call returns NULL (F = 0: none fails), and the   *)
(* code's own unwind is what happens next.                                 *)
(*                                                                         *)
(* What TLC decides here (C17):                                            *)
(*   CapOK        len <= size for every vector in every reachable state -  *)
(*                also after any sequence of failed calls (no write past a *)
(*                block);                                                  *)
(*   AbsOK        contents = previous or completed after a failed call     *)
(*                (the action picks whichever of the two matches, so AbsOK *)
(*                fails exactly when it is neither);                       *)
(*   SoundF       the structure invariants of BTreeImpl minus the size     *)
(*                bound (a failed split legitimately leaves a node too     *)
(*                long; OverfullOnlyAfterFault says that is the only way); *)
(*   Recovers     a failed call repeated without a fault completes.        *)
(* Capacities are hidden state: the code does not expose them.  They are   *)
(* bound to the code through the *number of allocations* every call makes  *)
(* (hook counter) - a wrong capacity shows as a wrong count a few calls    *)
(* later - and through the exact structure left behind by every fault      *)
(* index (JudgeAlloc / the dumped transitions replayed by alloc_worker).   *)
(*                                                                         *)
(* Deviations (pre-fix or seeded behaviours TLC must refute):              *)
(*   "SplitLenBeforeAlloc"   bucket_split shortens self before the second  *)
(*                           allocation succeeded                          *)
(*   "GrowSizeBeforeRealloc" BTree_grow doubles self->size before the      *)
(*                           reallocation succeeded                        *)
(*   "NoClearOnFirstFail"    a failed first insert keeps the empty leaf    *)
(*   "GrowFreesKeysOnValueFail" Bucket_grow frees the reallocated key block *)
(*                           when the value block fails (pre-fix D20)      *)
(***************************************************************************)
EXTENDS BTreeImpl

CONSTANTS IsSet,       \* TRUE: TreeSet (one vector per leaf), FALSE: BTree (keys and values)
          MinAlloc,    \* MIN_BUCKET_ALLOC (16 in the code; small in model instances to reach doubling)
          MaxF,        \* fault indices explored: 0..MaxF
          MaxFaults    \* failed calls per behaviour (state constraint FaultBound)

VARIABLES cap,         \* node id -> [sz: the size field, bk: length of the key/data block, bv: length of the value block]
          nf,          \* number of calls that failed so far (history; lets OverfullOnlyAfterFault be stated, bounds instances)
          ev           \* observation of the last call: [F, n, err]   (not in VIEW)
avars == <<heap, m, act, res, cap, nf, ev>>

ExtC(c, id, x) == [y \in DOMAIN c \cup {id} |-> IF y = id THEN x ELSE c[y]]
R(h, c, st, n, err) == [h |-> h, cap |-> c, st |-> st, n |-> n, err |-> err]
\* vectors per leaf
NVec == IF IsSet THEN 1 ELSE 2
C3(sz, bk, bv) == [sz |-> sz, bk |-> bk, bv |-> bv]
CLeaf(n) == C3(n, n, IF IsSet THEN 0 ELSE n)       \* a leaf whose blocks are exactly n long
CNode(n) == C3(n, n, 0)
NoBlock  == C3(0, 0, 0)

(* _bucket_set, key absent: `if (self->len == self->size && Bucket_grow(self, -1, noval) < 0) goto Done;`  *)
(* Bucket_grow: keys first, then values; a failure of either leaves size (and hence the bucket) as it was.  *)
ABucketAdd(h, c, bid, k, v, n, F) ==
  LET b     == h[bid]
      cb    == c[bid]
      need  == Len(b.ks) = cb.sz
      nk    == n + 1                      \* keys
      nv    == n + NVec                   \* values (same event as keys for a set)
      failK == need /\ nk = F
      failV == need /\ ~IsSet /\ nk # F /\ nv = F
      used  == IF ~need THEN n ELSE IF nk = F THEN nk ELSE nv
      newc  == IF cb.sz = 0 THEN MinAlloc ELSE 2 * cb.sz
      p     == Pos(b.ks, k)
      \* the value block failed after the key block succeeded: a fresh key block is freed again; a reallocated one is
      \* kept (it holds the keys; the old block is gone) while size stays - deviation: it is freed, keys dangling
      cV    == IF cb.sz = 0 THEN cb
               ELSE IF "GrowFreesKeysOnValueFail" \in Dev THEN C3(cb.sz, 0, cb.bv) ELSE C3(cb.sz, newc, cb.bv)
  IN IF failK THEN R(h, c, 0, used, TRUE)
     ELSE IF failV THEN R(h, [c EXCEPT ![bid] = cV], 0, used, TRUE)
     ELSE R(Upd(h, bid, Leaf(InsertAt(b.ks, p, k), InsertAt(b.vs, p, v), b.nx)),
            IF need THEN [c EXCEPT ![bid] = CLeaf(newc)] ELSE c, 1, used, FALSE)

(* BTree_grow(self, index) for a non-empty self, then BTree_split_root if self got huge. *)
RECURSIVE AGrow(_, _, _, _, _, _)
AGrow(h, c, self, i, n, F) ==
  LET s     == h[self]
      need  == Len(s.kids) = c[self].sz
      n1    == IF need THEN n + 1 ELSE n
      \* deviation: self->size is doubled before the reallocation is known to have succeeded
      c1    == IF need /\ n1 # F THEN [c EXCEPT ![self] = CNode(2 * c[self].sz)]
               ELSE IF need /\ "GrowSizeBeforeRealloc" \in Dev THEN [c EXCEPT ![self] = C3(2 * c[self].sz, c[self].bk, 0)]
               ELSE c
  IN IF need /\ n1 = F THEN R(h, c1, 1, n1, TRUE) ELSE
  LET vid   == s.kids[i]
      v     == h[vid]
      eid   == NewId(h)
      half  == NLen(v) \div 2
      nsz   == NLen(v) - half
      \* allocations of the split: bucket_split keys (+ values), BTree_split data
      nA    == n1 + 1
      nB    == IF v.t = "L" THEN n1 + NVec ELSE nA
      failS == nA = F \/ nB = F
      usedS == IF nA = F THEN nA ELSE nB
      \* deviation: bucket_split sets self->len = index before the value vector is allocated
      vShort == Leaf(SubSeq(v.ks, 1, half), SubSeq(v.vs, 1, half), v.nx)
  IN IF failS
       THEN IF v.t = "L" /\ nA # F /\ "SplitLenBeforeAlloc" \in Dev
              THEN R(Upd(h, vid, vShort), c1, 1, usedS, TRUE)
              ELSE R(h, c1, 1, usedS, TRUE)
  ELSE
  LET e == IF v.t = "L"
             THEN Leaf(SubSeq(v.ks, half+1, Len(v.ks)), SubSeq(v.vs, half+1, Len(v.vs)), v.nx)
             ELSE Inner(SubSeq(v.kids, half+1, Len(v.kids)),
                        SubSeq(v.seps, half+1, Len(v.seps)),
                        LET cc == h[v.kids[half+1]] IN
                          IF cc.t = "I" THEN cc.fb ELSE v.kids[half+1])
      v2 == IF v.t = "L"
              THEN Leaf(SubSeq(v.ks, 1, half), SubSeq(v.vs, 1, half), eid)
              ELSE Inner(SubSeq(v.kids, 1, half), SubSeq(v.seps, 1, half), v.fb)
      sep == IF v.t = "L" THEN e.ks[1] ELSE e.seps[1]
      s2 == Inner(InsertAt(s.kids, i+1, eid), InsertAt(s.seps, i+1, sep), s.fb)
      h2 == Upd(Upd(Ext(h, eid, e), vid, v2), self, s2)
      c2 == ExtC(c1, eid, IF v.t = "L" THEN CLeaf(nsz) ELSE CNode(nsz))
  IN IF Len(s2.kids) >= 2 * MaxInt
       THEN \* BTree_split_root: d = malloc(2 items); the data moves to a new child, which is then split
            LET n3 == nB + 1 IN
            IF n3 = F THEN R(h2, c2, 1, n3, TRUE) ELSE
            LET cid == NewId(h2)
                ch  == Inner(s2.kids, s2.seps, s2.fb)
                r   == Inner(<<cid>>, <<0>>, s2.fb)
                h3  == Upd(Ext(h2, cid, ch), self, r)
                c3  == [ExtC(c2, cid, c2[self]) EXCEPT ![self] = CNode(2)]
            IN AGrow(h3, c3, self, 1, n3, F)
       ELSE R(h2, c2, 1, nB, FALSE)

(* _BTree_set with a value. *)
RECURSIVE ASetR(_, _, _, _, _, _, _, _)
ASetR(h, c, self, k, v, unique, n, F) ==
  LET s0       == h[self]
      wasEmpty == Len(s0.kids) = 0
      needD    == wasEmpty /\ c[self].sz = 0    \* BTree_grow(self, 0): len == size
      n1       == IF needD THEN n + 1 ELSE n
      cleared  == Upd(h, self, Inner(<<>>, <<>>, Nil))
  IN IF needD /\ n1 = F THEN R(h, c, 0, n1, TRUE) ELSE
  LET bid == NewId(h)
      h0  == IF wasEmpty THEN Upd(Ext(h, bid, Leaf(<<>>, <<>>, Nil)), self, Inner(<<bid>>, <<0>>, bid)) ELSE h
      c0  == IF wasEmpty THEN ExtC([c EXCEPT ![self] = IF needD THEN CNode(2) ELSE c[self]], bid, NoBlock) ELSE c
      s   == h0[self]
      i   == TreeSearch(s, k)
      cid == s.kids[i]
      ch  == h0[cid]
      r == IF ch.t = "I" THEN ASetR(h0, c0, cid, k, v, unique, n1, F)
           ELSE IF Has(ch.ks, k)
                  THEN IF unique THEN R(h0, c0, 0, n1, FALSE)
                       ELSE R(Upd(h0, cid, Leaf(ch.ks, SetAt(ch.vs, Pos(ch.ks, k), v), ch.nx)), c0, 0, n1, FALSE)
           ELSE ABucketAdd(h0, c0, cid, k, v, n1, F)
      \* Error exit: `if (self_was_empty) _BTree_clear(self)` - data freed, len = size = 0
      unwind(rr) == IF wasEmpty /\ "NoClearOnFirstFail" \notin Dev
                      THEN R(cleared, [c EXCEPT ![self] = NoBlock], 0, rr.n, TRUE)
                      ELSE rr
  IN IF r.err THEN unwind(r)
     ELSE IF r.st = 0 THEN r
     ELSE LET c2 == r.h[cid]
              toobig == NLen(c2) > (IF c2.t = "I" THEN MaxInt ELSE MaxLeaf)
          IN IF toobig THEN LET g == AGrow(r.h, r.cap, self, i, r.n, F) IN IF g.err THEN unwind(g) ELSE g
             ELSE r

-----------------------------------------------------------------------------
\* capacities after a delete: an emptied leaf frees its vectors (size 0) and is dropped from the tree;
\* an interior node keeps its block whatever its length; _BTree_clear frees the root's block
RestrictC(c, h) == [x \in DOMAIN h |-> c[x]]

AInit == /\ Init
         /\ cap = (Root :> NoBlock)
         /\ nf = 0
         /\ ev = [F |-> 0, n |-> 0, err |-> FALSE]

\* contents of a heap as a map, to pick the abstract successor
HeapMap(h) == LET ks == Contents(h)
                  vs == ContentsV(h)
              IN [x \in {ks[j] : j \in 1..Len(ks)} |-> vs[CHOOSE j \in 1..Len(ks) : ks[j] = x]]

AStep(r, m2, a, F) ==
  LET h2 == GC(r.h) IN
  /\ heap' = h2
  /\ cap' = RestrictC(r.cap, h2)
  /\ m' = IF r.err /\ HeapMap(h2) = m THEN m ELSE m2     \* previous contents or the completed change
  /\ act' = a
  /\ res' = [impl |-> IF r.err THEN <<"MemoryError">> ELSE OK, abs |-> OK]
  /\ nf' = nf + (IF r.err THEN 1 ELSE 0)
  /\ ev' = [F |-> F, n |-> r.n, err |-> r.err]

ASetItem(k, v, F) ==
  AStep(ASetR(heap, cap, Root, k, v, FALSE, 0, F), MapSet(m, k, v), [op |-> "setitem", k |-> k, v |-> v], F)

AInsert(k, v, F) ==
  AStep(ASetR(heap, cap, Root, k, v, TRUE, 0, F), IF k \in Dom(m) THEN m ELSE MapSet(m, k, v),
        [op |-> "insert", k |-> k, v |-> v], F)

ADelItem(k) ==
  LET r == DelR(heap, Root, k)
      h2 == GC(IF r.st = 0 THEN heap ELSE r.h) IN
  /\ heap' = h2
  /\ cap' = RestrictC(cap, h2)
  /\ m' = IF k \in Dom(m) THEN MapDel(m, k) ELSE m
  /\ act' = [op |-> "delitem", k |-> k, v |-> 0]
  /\ res' = [impl |-> IF r.st = 0 THEN KeyErr ELSE OK, abs |-> IF k \in Dom(m) THEN OK ELSE KeyErr]
  /\ ev' = [F |-> 0, n |-> 0, err |-> FALSE]
  /\ UNCHANGED nf

AClear ==
  /\ heap' = EmptyTree /\ cap' = (Root :> NoBlock) /\ m' = EmptyMap
  /\ act' = [op |-> "clear", k |-> 0, v |-> 0] /\ res' = [impl |-> OK, abs |-> OK]
  /\ ev' = [F |-> 0, n |-> 0, err |-> FALSE]
  /\ UNCHANGED nf

ANext == \/ \E k \in Keys, v \in Vals, F \in 0..MaxF : ASetItem(k, v, F) \/ AInsert(k, v, F)
         \/ \E k \in Keys : ADelItem(k)
         \/ AClear
ASpec == AInit /\ [][ANext]_avars
\* a fault index beyond the allocations a call makes is the same call without a fault: explore it once (ACTION_CONSTRAINT)
NoIdleF == ev'.F = 0 \/ ev'.err
\* the structural generators only (what the dump for the replay contains)
ANextCore == \/ \E k \in Keys, v \in Vals, F \in 0..MaxF : ASetItem(k, v, F)
             \/ \E k \in Keys : ADelItem(k)
             \/ AClear
ASpecCore == AInit /\ [][ANextCore]_avars
\* effective steps (what -simulate walks to get deep trees): adding absent keys, with and without faults, removing present ones
ANextEff == \/ \E k \in Keys \ Dom(m), v \in Vals, F \in 0..MaxF : ASetItem(k, v, F)
            \/ \E k \in Dom(m) : ADelItem(k)

\* VIEW: the tree without ids, but with capacities (hidden state that decides later behaviour)
RECURSIVE RenderC(_, _, _)
RenderC(h, c, id) == LET n == h[id] IN
  IF n.t = "L" THEN <<"L", n.ks, n.vs, c[id]>>
  ELSE <<"I", [j \in 1..Len(n.kids) |-> RenderC(h, c, n.kids[j])], SubSeq(n.seps, 2, Len(n.seps)), c[id]>>
AView == <<RenderC(heap, cap, Root), nf>>

-----------------------------------------------------------------------------
FaultBound == nf <= MaxFaults

\* memory safety of the modelled vectors: no vector is longer than its block; a leaf in the tree has a block
CapOK == \A id \in DOMAIN heap :
           LET n == heap[id]
               cc == cap[id] IN
           /\ NLen(n) <= cc.sz                                  \* nothing is stored past the claimed capacity
           /\ cc.sz <= cc.bk                                    \* the claimed capacity is backed by the block
           /\ (n.t = "L" /\ ~IsSet => cc.sz <= cc.bv)
           /\ (n.t = "L" => cc.sz > 0)
           /\ (id # Root /\ n.t = "I" => cc.sz > 0)
\* BTreeImpl's Sound without the size bound
SoundF == ChainOK /\ SortedOK /\ NoEmpty /\ KindsOK /\ FirstOK /\ RangeOK
OverfullOnlyAfterFault == nf = 0 => SizeOK
\* a call that raised MemoryError consumed exactly F allocations; one that did not, fewer than F or F = 0
FaultSeen == /\ ev.err => ev.n = ev.F /\ ev.F > 0
             /\ ~ev.err /\ ev.F > 0 => ev.n < ev.F
ErrIsMemoryError == (res.impl = <<"MemoryError">>) = ev.err
\* the same call again, no fault: completes (contents = the completed change), from every reachable state
Recovers == \A k \in Keys, v \in Vals :
              LET r == ASetR(heap, cap, Root, k, v, FALSE, 0, 0) IN
              ~r.err /\ HeapMap(GC(r.h)) = MapSet(m, k, v)
\* without faults the allocation-granular transcription builds exactly what BTreeImpl!SetR builds
SameAsSetR == \A k \in Keys, v \in Vals, u \in BOOLEAN :
                LET r == ASetR(heap, cap, Root, k, v, u, 0, 0)
                    q == SetR(heap, Root, k, v, u) IN
                r.st = q.st /\ (r.st # 0 => Render(GC(r.h), Root) = Render(GC(q.h), Root))

\* JSON dump of every explored transition (ACTION_CONSTRAINT; one worker): the source is identified by tree + capacities
RECURSIVE ProjC(_, _, _)
ProjC(h, c, id) == LET n == h[id] IN
  IF n.t = "L" THEN [t |-> "L", ks |-> n.ks, vs |-> n.vs, nx |-> LeafIdx(h, n.nx), cap |-> c[id]]
  ELSE [t |-> "I", kids |-> [j \in 1..Len(n.kids) |-> ProjC(h, c, n.kids[j])],
        seps |-> SubSeq(n.seps, 2, Len(n.seps)), fb |-> LeafIdx(h, n.fb), cap |-> c[id]]
ADump == PrintT(<<"TR", ToJson([from |-> ProjC(heap, cap, Root), act |-> act', res |-> res'.impl,
                                 F |-> ev'.F, n |-> ev'.n, err |-> ev'.err,
                                 to |-> ProjC(heap', cap', Root)])>>)
ADumpEff == NoIdleF /\ ADump
=============================================================================
