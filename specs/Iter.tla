--------------------------------- MODULE Iter ---------------------------------
(***************************************************************************)
(* C15: iterators and lazy keys()/values()/items() sequences interleaved   *)
(* with mutations of the container (C flavour: BTreeItems / BTreeIter of   *)
(* BTreeItemsTemplate.c; the range machinery is RangeImpl's) and Python     *)
(* flavour (`pcur`: _TreeItems of _base.py with its generator, the per-leaf *)
(* generator expressions of _BucketBase.iterkeys/itervalues/iteritems that  *)
(* capture the leaf's live lists, the cached length and the cached last     *)
(* entry).  Both cursors are opened by the same Open and stepped by the     *)
(* same steps; each is a deterministic function of the history.             *)
(*                                                                         *)
(* A cursor is a BTreeItems record it = [fb, first, lb, last] (leaf ids    *)
(* and 1-based offsets) plus the parked position [b, off, p].  It holds    *)
(* counted references to its leaves, so the leaves it can reach (through   *)
(* their own `next` as well: an unlinked leaf keeps its successor) stay    *)
(* alive whatever the tree does: they are roots of the collection here.    *)
(*                                                                         *)
(* Phase "build": the tree is built freely.  Phase "use": one cursor is    *)
(* opened and then stepped (next / indexing) in any interleaving with      *)
(* inserts, deletes, pops and clear.                                       *)
(***************************************************************************)
EXTENDS RangeImpl

CONSTANTS MaxUse,         \* bound on the number of steps after the cursor was opened
          MaxIdx,         \* indices tried on a lazy sequence: -2 .. MaxIdx
          MinOpen         \* the cursor is opened on a tree of at least this many keys (simulation: deep trees)

VARIABLES cur,            \* the cursor
          phase,          \* "build" | "use"
          nuse,           \* steps taken in phase "use"
          out,            \* outcome of the last cursor step (observation)
          pcur,           \* the Python cursor
          pout            \* its outcome
ivars == <<heap, m, act, res, cur, phase, nuse, out, pcur, pout>>

NoCur == [mode |-> "none", it |-> NoItems, b |-> Nil, off |-> 1, p |-> 0]
\* the generator of _TreeItems.__iter__: st "new" (no code has run yet) | "run" | "dead"; b the current leaf, inb
\* whether a per-leaf generator expression is open on it, [i, e) the remaining 0-based range it was opened with,
\* done the flag of the same name
NoGen == [st |-> "dead", b |-> Nil, inb |-> FALSE, i |-> 0, e |-> 0, done |-> FALSE]
NewGen(fb) == [st |-> "new", b |-> fb, inb |-> FALSE, i |-> 0, e |-> 0, done |-> FALSE]
NoPCur == [mode |-> "none", fb |-> Nil, min |-> None, max |-> None, xmin |-> FALSE, xmax |-> FALSE,
           g |-> NoGen, idx |-> 0 - 1, v |-> <<0, 0>>, plen |-> 0 - 1]
CurRoots == {cur.it.fb, cur.it.lb, cur.b, pcur.fb, pcur.g.b} \ {Nil}
\* collection with the cursor's leaves as additional roots
GCc(h, roots) == LET r == Reach(h, ({Root} \cup roots) \cap DOMAIN h) IN [x \in r |-> h[x]]

IInit == /\ Init
         /\ cur = NoCur /\ phase = "build" /\ nuse = 0 /\ out = <<"-">>
         /\ pcur = NoPCur /\ pout = <<"-">>

\* ---- mutations (BTreeImpl's operators; the heap keeps what the cursor holds)
Mut(h2, m2, a) ==
  /\ heap' = GCc(h2, CurRoots)
  /\ m' = m2 /\ act' = a /\ res' = res
  /\ out' = <<"-">> /\ pout' = <<"-">>
  /\ UNCHANGED <<cur, pcur>>
ISet(k, v) == Mut(SetR(heap, Root, k, v, FALSE).h, MapSet(m, k, v), [op |-> "setitem", k |-> k, v |-> v])
IDel(k)    == LET r == DelR(heap, Root, k) IN
              Mut(IF r.st = 0 THEN heap ELSE r.h, IF k \in Dom(m) THEN MapDel(m, k) ELSE m, [op |-> "delitem", k |-> k, v |-> 0])
IPopMin    == Dom(m) # {} /\ LET k == ImplMinKey(heap) IN
              Mut(DelR(heap, Root, k).h, MapDel(m, k), [op |-> "popitem", k |-> 0, v |-> 0])
IClear     == Mut(EmptyTree @@ heap, EmptyMap, [op |-> "clear", k |-> 0, v |-> 0])
\* (EmptyTree @@ heap: the root becomes empty, every other node is still there for the collection to decide)

\* ---- Python flavour
\* _BucketBase._range -> 0-based [start, end)
PyRangeIdx(ks, min, max, xmin, xmax) ==
  LET n == Len(ks)
      start == IF min = None THEN (IF xmin THEN 1 ELSE 0)
               ELSE IF Has(ks, min) THEN (Pos(ks, min) - 1) + (IF xmin THEN 1 ELSE 0)
               ELSE Pos(ks, min) - 1
      end == IF max = None THEN n - (IF xmax THEN 1 ELSE 0)
             ELSE IF Has(ks, max) THEN (Pos(ks, max) - 1) + (IF xmax THEN 0 ELSE 1)
             ELSE Pos(ks, max) - 1
  IN IF n = 0 THEN <<0, 0>> ELSE <<start, end>>

\* one next() of the generator: [g, out]; out is <<"entry", k, v>> | <<"stop">> | <<"IndexError">>
\* (the per-leaf generator expression indexes the leaf's *live* lists: an index beyond their present length raises
\* IndexError inside the generator, which is then finished)
RECURSIVE PyGenNext(_, _, _, _)
PyGenNext(h, pc, g, fuel) ==
  IF g.st = "dead" \/ fuel = 0 THEN [g |-> [g EXCEPT !.st = "dead"], out |-> <<"stop">>]
  ELSE IF ~g.inb
    THEN IF g.b = Nil THEN [g |-> [g EXCEPT !.st = "dead"], out |-> <<"stop">>]
         ELSE LET openMin == pc.xmin /\ pc.min = None
                  openMax == pc.xmax /\ pc.max = None
                  xm == pc.xmin /\ ~(openMin /\ g.b # pc.fb)
                  xx == pc.xmax /\ ~(openMax /\ h[g.b].nx # Nil)
                  r  == PyRangeIdx(h[g.b].ks, pc.min, pc.max, xm, xx)
              IN PyGenNext(h, pc, [g EXCEPT !.st = "run", !.inb = TRUE, !.i = r[1], !.e = r[2]], fuel - 1)
  ELSE IF g.i < g.e
    THEN IF g.i + 1 > Len(h[g.b].ks)
           THEN [g |-> [g EXCEPT !.st = "dead"], out |-> <<"IndexError">>]
           ELSE [g |-> [g EXCEPT !.i = g.i + 1, !.done = FALSE], out |-> <<"entry", h[g.b].ks[g.i + 1], h[g.b].vs[g.i + 1]>>]
  ELSE IF g.done THEN [g |-> [g EXCEPT !.st = "dead"], out |-> <<"stop">>]
  ELSE PyGenNext(h, pc, [g EXCEPT !.inb = FALSE, !.b = h[g.b].nx, !.done = TRUE], fuel - 1)

\* len(_TreeItems): a fresh, complete iteration, counted once and cached
PyLenNow(h, pc) == Len(PyIter(h, pc.fb, pc.fb, pc.min, pc.max, pc.xmin, pc.xmax, FALSE, 200))
PyLen(h, pc) == IF pc.plen >= 0 THEN pc.plen ELSE PyLenNow(h, pc)

\* _TreeItems.__getitem__(i) after the negative index was resolved: advance self.it until self.index = i
RECURSIVE PySeekTo(_, _, _, _)
PySeekTo(h, pc, i, fuel) ==
  IF i <= pc.idx \/ fuel = 0 THEN [pc |-> pc, out |-> <<"entry", pc.v[1], pc.v[2]>>]
  ELSE LET r == PyGenNext(h, pc, pc.g, 400) IN
       IF r.out[1] = "entry" THEN PySeekTo(h, [pc EXCEPT !.g = r.g, !.idx = pc.idx + 1, !.v = <<r.out[2], r.out[3]>>], i, fuel - 1)
       ELSE [pc |-> [pc EXCEPT !.g = r.g], out |-> <<"IndexError">>]     \* StopIteration -> IndexError(i); IndexError as it is

POpen(mode, min, max, xmin, xmax) ==
  IF Len(heap[Root].kids) = 0 THEN [NoPCur EXCEPT !.mode = "empty"]      \* keys() of an empty tree is the empty tuple
  ELSE LET b == IF min # None THEN FindLeaf(heap, Root, min) ELSE heap[Root].fb IN
       [NoPCur EXCEPT !.mode = mode, !.fb = b, !.min = min, !.max = max, !.xmin = xmin, !.xmax = xmax, !.g = NewGen(b)]
PNext ==
  IF pcur.mode = "empty" THEN pout' = <<"stop">> /\ UNCHANGED pcur
  ELSE LET r == PyGenNext(heap, pcur, pcur.g, 400) IN pout' = r.out /\ pcur' = [pcur EXCEPT !.g = r.g]
PSeq(i0) ==
  IF pcur.mode = "empty" THEN pout' = <<"IndexError">> /\ UNCHANGED pcur
  ELSE LET n   == PyLen(heap, pcur)
           pc0 == IF i0 < 0 THEN [pcur EXCEPT !.plen = n] ELSE pcur
           i   == IF i0 < 0 THEN i0 + n ELSE i0
       IN IF i < 0 THEN pout' = <<"IndexError">> /\ pcur' = pc0
          ELSE LET pc1 == IF i < pc0.idx THEN [pc0 EXCEPT !.idx = 0 - 1, !.g = NewGen(pc0.fb)] ELSE pc0
                   r   == PySeekTo(heap, pc1, i, 400)
               IN pout' = r.out /\ pcur' = r.pc
PLen ==
  IF pcur.mode = "empty" THEN pout' = <<"len", 0>> /\ UNCHANGED pcur
  ELSE LET n == PyLen(heap, pcur) IN pout' = <<"len", n>> /\ pcur' = [pcur EXCEPT !.plen = n]

\* ---- opening a cursor
Open(mode, min, max, xmin, xmax) ==
  LET it == CRange(heap, min, max, xmin, xmax) IN
  /\ cur' = [mode |-> mode, it |-> it, b |-> it.fb, off |-> it.first, p |-> 0]
  /\ act' = [op |-> "open", k |-> min, v |-> max, mode |-> mode, xmin |-> xmin, xmax |-> xmax]
  /\ out' = <<"-">> /\ pout' = <<"-">>
  /\ pcur' = POpen(mode, min, max, xmin, xmax)
  /\ UNCHANGED <<heap, m, res>>


\* ---- BTreeIter_next
Far == 9999           \* currentoffset = INT_MAX after a size-change error (the error is sticky)
INext ==
  /\ cur.mode = "iter"
  /\ act' = [op |-> "next", k |-> 0, v |-> 0]
  /\ PNext
  /\ UNCHANGED <<heap, m, res>>
  /\ IF cur.b = Nil THEN out' = <<"stop">> /\ UNCHANGED cur
     ELSE LET ks == heap[cur.b].ks IN
          IF cur.off > Len(ks)
            THEN out' = <<"RuntimeError">> /\ cur' = [cur EXCEPT !.off = Far]
          ELSE /\ out' = <<"entry", ks[cur.off], heap[cur.b].vs[cur.off]>>
               /\ cur' = IF cur.b = cur.it.lb /\ cur.off >= cur.it.last THEN [cur EXCEPT !.b = Nil]
                         ELSE IF cur.off + 1 > Len(ks) THEN [cur EXCEPT !.b = heap[cur.b].nx, !.off = 1]
                         ELSE [cur EXCEPT !.off = cur.off + 1]

\* ---- seq[i]: PySequence_GetItem adds len(seq) to a negative index, then BTreeItems_seek
ISeq(i0) ==
  /\ cur.mode = "seq"
  /\ act' = [op |-> "getitem", k |-> i0, v |-> 0]
  /\ PSeq(i0)
  /\ UNCHANGED <<heap, m, res>>
  /\ LET i == IF i0 < 0 THEN i0 + CLen(heap, cur.it) ELSE i0
         r == CSeek(heap, cur.it, [b |-> cur.b, off |-> cur.off, p |-> cur.p], i) IN
     IF r.ok = "ok"
       THEN /\ out' = <<"entry", heap[r.b].ks[r.off], heap[r.b].vs[r.off]>>
            /\ cur' = [cur EXCEPT !.b = r.b, !.off = r.off, !.p = r.p]
       ELSE out' = <<r.ok>> /\ UNCHANGED cur
ILen ==
  /\ cur.mode = "seq"
  /\ act' = [op |-> "len", k |-> 0, v |-> 0]
  /\ PLen
  /\ out' = <<"len", CLen(heap, cur.it)>>
  /\ UNCHANGED <<heap, m, res, cur>>

Bnd == {None} \cup Keys
INextRel ==
  \/ /\ phase = "build" /\ NextCore /\ UNCHANGED <<cur, phase, nuse, out, pcur, pout>>
  \/ /\ phase = "build" /\ phase' = "use" /\ nuse' = 0 /\ Cardinality(Dom(m)) >= MinOpen
     /\ \E mode \in {"iter", "seq"}, min \in Bnd, max \in Bnd, xmin \in BOOLEAN, xmax \in BOOLEAN : Open(mode, min, max, xmin, xmax)
  \/ /\ phase = "use" /\ nuse < MaxUse /\ nuse' = nuse + 1 /\ UNCHANGED phase
     /\ \/ INext
        \/ \E i \in (0 - 2)..MaxIdx : ISeq(i)
        \/ ILen
        \/ \E k \in Keys : (\E v \in Vals : ISet(k, v)) \/ IDel(k)
        \/ IPopMin \/ IClear
ISpec == IInit /\ [][INextRel]_ivars

\* ---- C15
\* every step of the iteration yields some entry, ends the iteration, or raises RuntimeError / IndexError
OutcomeOK == /\ out[1] \in {"-", "entry", "stop", "RuntimeError", "IndexError", "len"}
             /\ pout[1] \in {"-", "entry", "stop", "IndexError", "len"}
\* the cursor never looks outside a leaf's vectors and never at a leaf that is gone
InBounds == /\ CurRoots \subseteq DOMAIN heap
            /\ out[1] = "entry" => out[2] \in Keys
            /\ pout[1] = "entry" => pout[2] \in Keys
\* the container itself: sound, and exactly the contents the mutations imply
ContainerOK == /\ Contents(GC(heap)) = AbsKeys(m) /\ ContentsV(GC(heap)) = AbsVals(m)
               /\ LET h == GC(heap) IN
                    /\ ChainIds(h, h[Root].fb, Cardinality(DOMAIN h) + 1) = Descend(h, Root)
                    /\ \A id \in DOMAIN h : id # Root => NLen(h[id]) > 0
                    /\ InRange(h, Root, 0, 0)
\* without mutations an iterator yields exactly the range, in order (ties the cursor to C02)
IView == <<Render(heap, Root), cur, pcur, phase, nuse, [id \in CurRoots |-> heap[id]]>>

\* spec -> code: every step of a simulated behaviour, in order
DumpI == PrintT(<<"TR", ToJson([first |-> (act.op = "init"), phase |-> phase', n |-> nuse', act |-> act', out |-> out', pout |-> pout', to |-> Proj(GC(heap'), Root)])>>)
=============================================================================
