--------------------------------- MODULE Iter ---------------------------------
(***************************************************************************)
(* C15: iterators and lazy keys()/values()/items() sequences interleaved   *)
(* with mutations of the container (C flavour: BTreeItems / BTreeIter of   *)
(* BTreeItemsTemplate.c; the range machinery is RangeImpl's).              *)
(*                                                                         *)
(* A cursor is a BTreeItems record it = [fb, first, lb, last] (leaf ids    *)
(* and 1-based offsets) plus the parked position [b, off, p].  It holds    *)
(* counted references to its leaves, so the leaves it can reach (through   *)
(* their own `next` as well: an unlinked leaf keeps its successor) stay    *)
(* alive whatever the tree does: they are roots of the collection here.    *)
(*                                                                         *)
(* Phase "build": the tree is built freely.  Phase "use": one cursor is    *)
(* opened and then stepped (next / indexing) in any interleaving with      *)
(* inserts, deletes, pops and clear.                                       *)
(***************************************************************************)
EXTENDS RangeImpl

CONSTANTS MaxUse,         \* bound on the number of steps after the cursor was opened
          MaxIdx,         \* indices tried on a lazy sequence: -2 .. MaxIdx
          MinOpen         \* the cursor is opened on a tree of at least this many keys (simulation: deep trees)

VARIABLES cur,            \* the cursor
          phase,          \* "build" | "use"
          nuse,           \* steps taken in phase "use"
          out             \* outcome of the last cursor step (observation)
ivars == <<heap, m, act, res, cur, phase, nuse, out>>

NoCur == [mode |-> "none", it |-> NoItems, b |-> Nil, off |-> 1, p |-> 0]
CurRoots == {cur.it.fb, cur.it.lb, cur.b} \ {Nil}
\* collection with the cursor's leaves as additional roots
GCc(h, roots) == LET r == Reach(h, ({Root} \cup roots) \cap DOMAIN h) IN [x \in r |-> h[x]]

IInit == /\ Init
         /\ cur = NoCur /\ phase = "build" /\ nuse = 0 /\ out = <<"-">>

\* ---- mutations (BTreeImpl's operators; the heap keeps what the cursor holds)
Mut(h2, m2, a) ==
  /\ heap' = GCc(h2, CurRoots)
  /\ m' = m2 /\ act' = a /\ res' = res
  /\ out' = <<"-">>
  /\ UNCHANGED cur
ISet(k, v) == Mut(SetR(heap, Root, k, v, FALSE).h, MapSet(m, k, v), [op |-> "setitem", k |-> k, v |-> v])
IDel(k)    == LET r == DelR(heap, Root, k) IN
              Mut(IF r.st = 0 THEN heap ELSE r.h, IF k \in Dom(m) THEN MapDel(m, k) ELSE m, [op |-> "delitem", k |-> k, v |-> 0])
IPopMin    == Dom(m) # {} /\ LET k == ImplMinKey(heap) IN
              Mut(DelR(heap, Root, k).h, MapDel(m, k), [op |-> "popitem", k |-> 0, v |-> 0])
IClear     == Mut(EmptyTree @@ heap, EmptyMap, [op |-> "clear", k |-> 0, v |-> 0])
\* (EmptyTree @@ heap: the root becomes empty, every other node is still there for the collection to decide)

\* ---- opening a cursor
Open(mode, min, max, xmin, xmax) ==
  LET it == CRange(heap, min, max, xmin, xmax) IN
  /\ cur' = [mode |-> mode, it |-> it, b |-> it.fb, off |-> it.first, p |-> 0]
  /\ act' = [op |-> "open", k |-> min, v |-> max, mode |-> mode, xmin |-> xmin, xmax |-> xmax]
  /\ out' = <<"-">>
  /\ UNCHANGED <<heap, m, res>>

\* ---- BTreeIter_next
Far == 9999           \* currentoffset = INT_MAX after a size-change error (the error is sticky)
INext ==
  /\ cur.mode = "iter"
  /\ act' = [op |-> "next", k |-> 0, v |-> 0]
  /\ UNCHANGED <<heap, m, res>>
  /\ IF cur.b = Nil THEN out' = <<"stop">> /\ UNCHANGED cur
     ELSE LET ks == heap[cur.b].ks IN
          IF cur.off > Len(ks)
            THEN out' = <<"RuntimeError">> /\ cur' = [cur EXCEPT !.off = Far]
          ELSE /\ out' = <<"entry", ks[cur.off], heap[cur.b].vs[cur.off]>>
               /\ cur' = IF cur.b = cur.it.lb /\ cur.off >= cur.it.last THEN [cur EXCEPT !.b = Nil]
                         ELSE IF cur.off + 1 > Len(ks) THEN [cur EXCEPT !.b = heap[cur.b].nx, !.off = 1]
                         ELSE [cur EXCEPT !.off = cur.off + 1]

\* ---- seq[i]: PySequence_GetItem adds len(seq) to a negative index, then BTreeItems_seek
ISeq(i0) ==
  /\ cur.mode = "seq"
  /\ act' = [op |-> "getitem", k |-> i0, v |-> 0]
  /\ UNCHANGED <<heap, m, res>>
  /\ LET i == IF i0 < 0 THEN i0 + CLen(heap, cur.it) ELSE i0
         r == CSeek(heap, cur.it, [b |-> cur.b, off |-> cur.off, p |-> cur.p], i) IN
     IF r.ok = "ok"
       THEN /\ out' = <<"entry", heap[r.b].ks[r.off], heap[r.b].vs[r.off]>>
            /\ cur' = [cur EXCEPT !.b = r.b, !.off = r.off, !.p = r.p]
       ELSE out' = <<r.ok>> /\ UNCHANGED cur
ILen ==
  /\ cur.mode = "seq"
  /\ act' = [op |-> "len", k |-> 0, v |-> 0]
  /\ out' = <<"len", CLen(heap, cur.it)>>
  /\ UNCHANGED <<heap, m, res, cur>>

Bnd == {None} \cup Keys
INextRel ==
  \/ /\ phase = "build" /\ NextCore /\ UNCHANGED <<cur, phase, nuse, out>>
  \/ /\ phase = "build" /\ phase' = "use" /\ nuse' = 0 /\ Cardinality(Dom(m)) >= MinOpen
     /\ \E mode \in {"iter", "seq"}, min \in Bnd, max \in Bnd, xmin \in BOOLEAN, xmax \in BOOLEAN : Open(mode, min, max, xmin, xmax)
  \/ /\ phase = "use" /\ nuse < MaxUse /\ nuse' = nuse + 1 /\ UNCHANGED phase
     /\ \/ INext
        \/ \E i \in (0 - 2)..MaxIdx : ISeq(i)
        \/ ILen
        \/ \E k \in Keys : (\E v \in Vals : ISet(k, v)) \/ IDel(k)
        \/ IPopMin \/ IClear
ISpec == IInit /\ [][INextRel]_ivars

\* ---- C15
\* every step of the iteration yields some entry, ends the iteration, or raises RuntimeError / IndexError
OutcomeOK == out[1] \in {"-", "entry", "stop", "RuntimeError", "IndexError", "len"}
\* the cursor never looks outside a leaf's vectors and never at a leaf that is gone
InBounds == /\ CurRoots \subseteq DOMAIN heap
            /\ out[1] = "entry" => out[2] \in Keys
\* the container itself: sound, and exactly the contents the mutations imply
ContainerOK == /\ Contents(GC(heap)) = AbsKeys(m) /\ ContentsV(GC(heap)) = AbsVals(m)
               /\ LET h == GC(heap) IN
                    /\ ChainIds(h, h[Root].fb, Cardinality(DOMAIN h) + 1) = Descend(h, Root)
                    /\ \A id \in DOMAIN h : id # Root => NLen(h[id]) > 0
                    /\ InRange(h, Root, 0, 0)
\* without mutations an iterator yields exactly the range, in order (ties the cursor to C02)
IView == <<Render(heap, Root), cur, phase, nuse, [id \in CurRoots |-> heap[id]]>>

\* spec -> code: every step of a simulated behaviour, in order
DumpI == PrintT(<<"TR", ToJson([first |-> (act.op = "init"), phase |-> phase', n |-> nuse', act |-> act', out |-> out', to |-> Proj(GC(heap'), Root)])>>)
=============================================================================
