------------------------------- MODULE JudgeTxn -------------------------------
(* code -> spec (C08): two-transaction scenarios run on the real containers   *)
(* over two stand-in connections, judged against Txn!Scenario: the read        *)
(* dependencies each transaction declared, the outcome of the second commit    *)
(* (reason code included) and the tree a third connection loads; then the      *)
(* property itself (Txn!OutcomeOK).                                            *)
EXTENDS Txn, IOUtils
Recs == JsonDeserialize(IOEnv.RECS)
Paths(h, ids) == [j \in 1..Len(ids) |-> PathOf(h, ids[j])]
\* The base is built the way the worker built it: the path through Persist's actions, one call
\* per step, committed after each call or at the end (every step leaves fully evaluated state
\* values -- folding the whole history into one nested operator expression overflowed TLC's
\* stack on unevaluated heaps).  Then the scenario, then the verdict, each computed once.
VARIABLES i, wk, stage, l, pend, sc, out
jvars == <<i, wk, stage, l, pend, sc, out, pvars>>
R == Recs[i]
Why(r, s) ==
  IF Proj(s.h0, Root) # r.base THEN "base"
  ELSE IF s.c1.res # r.res1 \/ s.c2.res # r.res2 THEN "results"
  ELSE IF Paths(s.h0, s.c1.rc) # r.rc1 THEN "readcurrent-1"
  ELSE IF Paths(s.h0, s.c2.rc) # r.rc2 THEN "readcurrent-2"
  ELSE IF s.kind # r.kind THEN "outcome"
  ELSE IF r.kind = "conflict" /\ s.reason # r.reason THEN "reason"
  ELSE IF r.kind = "ok" /\ Proj(LoadedFrom(s.st), Root) # r.loaded THEN "loaded-structure"
  ELSE IF r.kind = "ok" /\ HItems(LoadedFrom(s.st)) # <<r.litems[1], r.litems[2]>> THEN "loaded-contents"
  ELSE IF ~OutcomeOKS(s, r.ops1, r.ops2) THEN "property"
  ELSE "-"
JInit == PInit /\ i = 0 /\ wk \in 0..15 /\ stage = 0 /\ l = 1 /\ pend = 0 /\ sc = 0 /\ out = "-"
JNext ==
  \/ /\ stage = 0
     /\ i' \in {x \in 1..Len(Recs) : x % 16 = wk}
     /\ stage' = 1 /\ UNCHANGED <<wk, l, pend, sc, out, pvars>>
  \/ /\ stage = 1 /\ pend = 0 /\ l <= Len(R.path)
     /\ LET op == R.path[l] IN IF op[1] = "set" THEN PSetItem(op[2], op[3]) ELSE PDelItem(op[2])
     /\ l' = l + 1 /\ pend' = IF R.each THEN 1 ELSE 0
     /\ UNCHANGED <<i, wk, stage, sc, out>>
  \/ /\ stage = 1 /\ pend = 1
     /\ Commit
     /\ pend' = 0 /\ UNCHANGED <<i, wk, stage, l, sc, out>>
  \/ /\ stage = 1 /\ pend = 0 /\ l > Len(R.path)
     /\ Commit
     /\ stage' = 2 /\ UNCHANGED <<i, wk, l, pend, sc, out>>
  \/ /\ stage = 2
     /\ sc' = LET s == Scenario([os |-> oids, st |-> store], R.ops1, R.ops2) IN
               [kind |-> s.kind, reason |-> s.reason, st |-> s.st, h0 |-> s.h0,
                c1 |-> [res |-> s.c1.res, rc |-> s.c1.rc], c2 |-> [res |-> s.c2.res, rc |-> s.c2.rc]]
     /\ stage' = 3 /\ UNCHANGED <<i, wk, l, pend, out, pvars>>
  \/ /\ stage = 3
     /\ out' = Why(R, sc)
     /\ stage' = 4 /\ UNCHANGED <<i, wk, l, pend, sc, pvars>>
JSpec == JInit /\ [][JNext]_jvars
JOK == out = "-" \/ (PrintT(<<"BAD", ToJson([i |-> i, why |-> out])>>) = FALSE)
=============================================================================
