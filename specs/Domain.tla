------------------------------- MODULE Domain -------------------------------
(***************************************************************************)
(* C13 / C09: which Python values a family's key and value types can       *)
(* represent, and what a stored value reads back as.                       *)
(*                                                                         *)
(* Type codes: keys  I L U Q (32/64-bit signed/unsigned), O (orderable     *)
(*                   object), f (2-byte string)                            *)
(*             values I L U Q, F (32-bit float), O (any object),           *)
(*                   s (6-byte string)                                     *)
(*                                                                         *)
(* An offered value is a record:                                           *)
(*   [t |-> "int", base, off]  the integer base + off, base one of the     *)
(*        landmarks below, off small -- enough to place it exactly on the  *)
(*        number line relative to every type boundary without 64-bit       *)
(*        arithmetic                                                       *)
(*   [t |-> "bool", v]                                                     *)
(*   [t |-> "float", neg, m, e]  the dyadic rational (-1)^neg * m * 2^e    *)
(*        (0 <= m < 2^30)                                                  *)
(*   [t |-> "inf", neg]  [t |-> "nan"]                                     *)
(*   [t |-> "str"] [t |-> "bytes", n] [t |-> "none"]                       *)
(*   [t |-> "plain"]   an object with default comparison                   *)
(*   [t |-> "tuple"]   some orderable object                               *)
(***************************************************************************)
EXTENDS Naturals, Integers, Sequences, TLC

\* landmarks on the number line, in increasing order; consecutive landmarks are much
\* farther apart than any offset used
Landmarks == <<"-2^100", "-2^63", "-2^31", "0", "2^31", "2^32", "2^63", "2^64", "2^100">>
Idx(b) == CHOOSE j \in 1..Len(Landmarks) : Landmarks[j] = b
Leq(b1, o1, b2, o2) == Idx(b1) < Idx(b2) \/ (Idx(b1) = Idx(b2) /\ o1 <= o2)

\* inclusive range of an integer type as (base, off) pairs
Lo(c) == CASE c = "I" -> <<"-2^31", 0>> [] c = "L" -> <<"-2^63", 0>> [] c \in {"U", "Q"} -> <<"0", 0>>
Hi(c) == CASE c = "I" -> <<"2^31", -1>> [] c = "L" -> <<"2^63", -1>> [] c = "U" -> <<"2^32", -1>> [] c = "Q" -> <<"2^64", -1>>
IntFits(c, x) == Leq(Lo(c)[1], Lo(c)[2], x.base, x.off) /\ Leq(x.base, x.off, Hi(c)[1], Hi(c)[2])

\* ---- single-precision rounding of m * 2^e (round to nearest, ties to even), 0 <= m < 2^30
RECURSIVE BitLen(_)
BitLen(m) == IF m = 0 THEN 0 ELSE 1 + BitLen(m \div 2)
RECURSIVE P2(_)
P2(k) == IF k = 0 THEN 1 ELSE 2 * P2(k - 1)
RECURSIVE Normal(_, _)
Normal(m, e) == IF m = 0 THEN <<0, 0>> ELSE IF m % 2 = 0 THEN Normal(m \div 2, e + 1) ELSE <<m, e>>
\* keep `keep` leading bits of m (m has more), rounding to nearest even
RoundTo(m, e, keep) ==
  LET s == BitLen(m) - keep
      q == m \div P2(s)
      rem == m % P2(s)
      half == P2(s - 1)
      up == rem > half \/ (rem = half /\ q % 2 = 1)
  IN Normal(IF up THEN q + 1 ELSE q, e + s)
\* float32: 24 significant bits, least exponent of a subnormal -149, largest finite (2^24 - 1) * 2^104
F32(m, e) ==
  IF m = 0 THEN [kind |-> "num", m |-> 0, e |-> 0]
  ELSE LET bl == BitLen(m)
           msb == e + bl - 1                       \* exponent of the leading bit
           keep == IF msb >= -126 THEN 24 ELSE 24 - (-126 - msb)   \* fewer bits in the subnormal range
           r == IF keep <= 0
                  THEN (IF keep = 0 /\ m > P2(bl - 1) THEN <<1, -149>> ELSE <<0, 0>>)  \* below half the least subnormal -> 0
                  ELSE IF bl <= keep THEN Normal(m, e) ELSE RoundTo(m, e, keep)
       IN IF r[1] # 0 /\ r[2] + BitLen(r[1]) - 1 > 127 THEN [kind |-> "overflow", m |-> 0, e |-> 0]
          ELSE [kind |-> "num", m |-> r[1], e |-> r[2]]

\* ---- the promise: outcome of offering x as a key / as a value
\*   <<"TypeError">> | <<"same">> (stored, reads back equal to what was written)
\*   <<"int", v>> (bool stored as the integer v) | <<"f32", neg, m, e>> | <<"inf", neg>> | <<"nan">>
Rej == <<"TypeError">>
Same == <<"same">>
AsInt(c, x) ==
  CASE x.t = "int"  -> IF IntFits(c, x) THEN Same ELSE Rej
    [] x.t = "bool" -> <<"int", x.v>>
    [] OTHER -> Rej
KeyOutcome(c, x) ==
  CASE c \in {"I", "L", "U", "Q"} -> AsInt(c, x)
    [] c = "O" -> IF x.t \in {"plain", "index"} THEN Rej ELSE Same
    [] c = "f" -> IF x.t = "bytes" /\ x.n = 2 THEN Same ELSE Rej
AsFloat(x) ==
  CASE x.t = "float" -> LET r == F32(x.m, x.e) IN
                        IF r.kind = "overflow" THEN Rej ELSE <<"f32", IF r.m = 0 THEN 0 ELSE x.neg, r.m, r.e>>
    [] x.t = "inf"   -> <<"inf", x.neg>>
    [] x.t = "nan"   -> <<"nan">>
    [] x.t = "bool"  -> <<"f32", 0, x.v, 0>>
    \* integers: small ones here; big ones are offered as float records flagged `asint` (the
    \* harness passes int(m * 2^e)), they convert like the equal float
    [] x.t = "int"   -> IF x.base = "0" THEN <<"f32", IF x.off < 0 THEN 1 ELSE 0, Normal(IF x.off < 0 THEN 0 - x.off ELSE x.off, 0)[1],
                                                Normal(IF x.off < 0 THEN 0 - x.off ELSE x.off, 0)[2]>>
                        ELSE <<"not-generated">>      \* big ints reach F as [t |-> "float", ..., asint] records
    [] OTHER -> Rej
ValOutcome(c, x) ==
  CASE c \in {"I", "L", "U", "Q"} -> AsInt(c, x)
    [] c = "O" -> Same
    [] c = "F" -> AsFloat(x)
    [] c = "s" -> IF x.t = "bytes" /\ x.n = 6 THEN Same ELSE Rej
=============================================================================
