------------------------------ MODULE CmpRange ------------------------------
(***************************************************************************)
(* Key comparisons and pins inside the range machinery of the C code       *)
(* (object keys), in the style of Cmp.tla:                                 *)
(*                                                                         *)
(*   BTree_findRangeEnd   the caller keeps the root pinned; below the root *)
(*                        hand-over-hand (the previous interior node is    *)
(*                        released before the next is pinned); the leaf is *)
(*                        searched by Bucket_findRangeEnd, which pins it,  *)
(*                        while the last interior node is still pinned     *)
(*   BTree_rangeSearch    low end (if min is given), then high end (if max *)
(*                        is given); an end that finds nothing ends the    *)
(*                        call; if the two ends lie in different leaves,   *)
(*                        one more comparison of the two endpoint keys -   *)
(*                        owned copies, both leaves released, only the     *)
(*                        root pinned (since the fix of D14)               *)
(*   BTree_maxminKey      with a bound: one BTree_findRangeEnd             *)
(*                                                                         *)
(* Used by C05 (what is pinned at every comparison of a range call; a      *)
(* sweep inside the j-th comparison) and C14 (which comparison fails).     *)
(***************************************************************************)
EXTENDS Cmp, RangeImpl

RECURSIVE FREEv(_, _, _)
FREEv(h, self, key) ==
  LET s   == h[self]
      pin == {Root, self}
      c   == s.kids[TreeSearch(s, key)]
  IN TSEv(self, s.seps, key, 0, Len(s.kids), pin) \o
     (IF h[c].t = "I" THEN FREEv(h, c, key)
      ELSE BSEv(c, h[c].ks, key, 0, Len(h[c].ks), pin \cup {c}))

\* keys / values / items / iter*(min, max, excludemin, excludemax)
RangeEv(h, min, max, xmin, xmax) ==
  IF Len(h[Root].kids) = 0 THEN <<>> ELSE
  LET lo   == CLo(h, min, xmin)
      evLo == IF min # None THEN FREEv(h, Root, min) ELSE <<>>
  IN IF ~lo.f THEN evLo ELSE
     LET hi   == CHi(h, max, xmax)
         evHi == IF max # None THEN FREEv(h, Root, max) ELSE <<>>
     IN IF ~hi.f \/ lo.b = hi.b THEN evLo \o evHi
        ELSE evLo \o evHi \o <<Ev(Nil, h[lo.b].ks[lo.off], h[hi.b].ks[hi.off], FALSE, {Root})>>

\* minKey(b) / maxKey(b)
BoundEv(h, key) == IF Len(h[Root].kids) = 0 THEN <<>> ELSE FREEv(h, Root, key)

\* a comparison that reads a node's key vector finds that node pinned
RangeReadPinned ==
  \A a, b \in Keys \cup {None} : \A x \in BOOLEAN :
    LET ev == RangeEv(heap, a, b, x, x) IN
    \A j \in 1..Len(ev) : ev[j].node = Nil \/ ev[j].node \in ev[j].pinned
\* the endpoint comparison is made exactly when the range ends lie in different leaves, and decides emptiness there
EndpointCmpOK ==
  \A a, b \in Keys \cup {None} : \A x \in BOOLEAN :
    LET ev == RangeEv(heap, a, b, x, x)
        it == CRange(heap, a, b, x, x) IN
    (it.fb # Nil /\ it.fb # it.lb) => (Len(ev) > 0 /\ ev[Len(ev)].node = Nil /\ ev[Len(ev)].lhs <= ev[Len(ev)].rhs)

EvOutR(h, ev) == [j \in 1..Len(ev) |->
   [lhs |-> ev[j].lhs, rhs |-> ev[j].rhs,
    pinned |-> {PathFromC(h, Root, x) : x \in ev[j].pinned}]]
\* spec -> code: expected events of the range calls on every shape (index 1 = no bound, i + 1 = key i)
NB == MaxKeyC + 2
DumpEvR == PrintT(<<"CR", ToJson([tree |-> Proj(heap, Root),
            range |-> [x \in 1..2 |-> [a \in 1..NB |-> [b \in 1..NB |->
                         EvOutR(heap, RangeEv(heap, a - 1, b - 1, x = 2, x = 2))]]],
            bound |-> [a \in 1..(NB - 1) |-> EvOutR(heap, BoundEv(heap, a))]])>>)
=============================================================================
