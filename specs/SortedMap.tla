------------------------------ MODULE SortedMap ------------------------------
(***************************************************************************)
(* Layer A: what every BTree / Bucket / TreeSet / Set promises -- a finite *)
(* map from keys to values kept in ascending key order (a set is a map to  *)
(* the value 1).  One operator per public call: AbsCall(m, op, k, v, ks)   *)
(* yields the new map and the call's result.  No nodes, no pointers.       *)
(* Keys and values are ranks (positive naturals); 0 is "none".             *)
(***************************************************************************)
EXTENDS Naturals, Sequences, FiniteSets

SMDom(f) == DOMAIN f
SMSet(f, k, v) == [x \in SMDom(f) \cup {k} |-> IF x = k THEN v ELSE f[x]]
SMDel(f, k)    == [x \in SMDom(f) \ {k} |-> f[x]]
SMEmpty == [x \in {} |-> 0]
RECURSIVE SMSortSet(_)
SMSortSet(S) == IF S = {} THEN <<>> ELSE
  LET mn == CHOOSE x \in S : \A y \in S : x <= y IN <<mn>> \o SMSortSet(S \ {mn})
SMKeys(f) == SMSortSet(SMDom(f))
SMVals(f) == LET ks == SMKeys(f) IN [j \in 1..Len(ks) |-> f[ks[j]]]
SMMin(f) == CHOOSE x \in SMDom(f) : \A y \in SMDom(f) : x <= y
SMMax(f) == CHOOSE x \in SMDom(f) : \A y \in SMDom(f) : x >= y

ROk       == <<"ok">>
RV(x)     == <<"v", x>>
RKV(k, v) == <<"kv", k, v>>
RKeyErr   == <<"KeyError">>
RTypeErr  == <<"TypeError">>

\* bulk calls are folds of single-key calls, left to right
RECURSIVE SMUpdate(_, _)
SMUpdate(f, pairs) == IF pairs = <<>> THEN f
                      ELSE SMUpdate(SMSet(f, pairs[1][1], pairs[1][2]), Tail(pairs))
SeqSet(s) == {s[j] : j \in 1..Len(s)}

AbsCall(f, op, k, v, ks) ==
  CASE op = "setitem"    -> [m |-> SMSet(f, k, v), res |-> ROk]
    [] op = "insert"     -> IF k \in SMDom(f) THEN [m |-> f, res |-> RV(0)]
                            ELSE [m |-> SMSet(f, k, v), res |-> RV(1)]
    [] op = "setdefault" -> IF k \in SMDom(f) THEN [m |-> f, res |-> RV(f[k])]
                            ELSE [m |-> SMSet(f, k, v), res |-> RV(v)]
    [] op = "delitem"    -> IF k \in SMDom(f) THEN [m |-> SMDel(f, k), res |-> ROk]
                            ELSE [m |-> f, res |-> RKeyErr]
    [] op = "discard"    -> [m |-> SMDel(f, k), res |-> ROk]
    [] op = "pop"        -> IF k \in SMDom(f) THEN [m |-> SMDel(f, k), res |-> RV(f[k])]
                            ELSE [m |-> f, res |-> RKeyErr]
    [] op = "popdefault" -> IF k \in SMDom(f) THEN [m |-> SMDel(f, k), res |-> RV(f[k])]
                            ELSE [m |-> f, res |-> RV(v)]         \* v = rank of the default
    [] op = "popitem"    -> IF SMDom(f) = {} THEN [m |-> f, res |-> RKeyErr]
                            ELSE [m |-> SMDel(f, SMMin(f)), res |-> RKV(SMMin(f), f[SMMin(f)])]
    [] op = "clear"      -> [m |-> SMEmpty, res |-> ROk]
    [] op = "update"     -> [m |-> SMUpdate(f, ks), res |-> ROk]   \* ks: sequence of <<k, v>>
    [] op = "ior"        -> [m |-> [x \in SMDom(f) \cup SeqSet(ks) |-> IF x \in SMDom(f) THEN f[x] ELSE 1], res |-> ROk]
    [] op = "isub"       -> [m |-> [x \in SMDom(f) \ SeqSet(ks) |-> f[x]], res |-> ROk]
    [] op = "iand"       -> [m |-> [x \in SMDom(f) \cap SeqSet(ks) |-> f[x]], res |-> ROk]
    [] op = "ixor"       -> [m |-> [x \in (SMDom(f) \ SeqSet(ks)) \cup (SeqSet(ks) \ SMDom(f)) |-> 1], res |-> ROk]
    \* lookups: no change
    [] op = "get"        -> [m |-> f, res |-> IF k \in SMDom(f) THEN RV(f[k]) ELSE RV(v)]   \* v = default's rank
    [] op = "getitem"    -> [m |-> f, res |-> IF k \in SMDom(f) THEN RV(f[k]) ELSE RKeyErr]
    [] op = "contains"   -> [m |-> f, res |-> RV(IF k \in SMDom(f) THEN 1 ELSE 0)]
    [] op = "len"        -> [m |-> f, res |-> RV(Cardinality(SMDom(f)))]
    [] op = "bool"       -> [m |-> f, res |-> RV(IF SMDom(f) = {} THEN 0 ELSE 1)]
    \* a write with an argument outside the family's domain
    [] op = "badwrite"   -> [m |-> f, res |-> RTypeErr]
    \* a lookup with an unusable key: absence
    [] op = "badget"     -> [m |-> f, res |-> RV(v)]
    [] op = "badgetitem" -> [m |-> f, res |-> RKeyErr]
    [] op = "badcontains" -> [m |-> f, res |-> RV(0)]
    \* removing with an unusable key is a write: rejected (pop with or without default, remove); discard does nothing
    [] op = "badpop"     -> [m |-> f, res |-> RTypeErr]
    [] op = "badpopdefault" -> [m |-> f, res |-> RTypeErr]
    [] op = "badremove"  -> [m |-> f, res |-> RTypeErr]
    [] op = "baddiscard" -> [m |-> f, res |-> ROk]
    \* a lookup with a key that cannot be ordered against the stored ones (object keys): the reference sorted map has to
    \* compare it with a stored key as soon as there is one, and that comparison raises TypeError
    [] op = "xcontains"  -> [m |-> f, res |-> IF SMDom(f) = {} THEN RV(0) ELSE RTypeErr]
    [] op = "xget"       -> [m |-> f, res |-> IF SMDom(f) = {} THEN RV(v) ELSE RTypeErr]
    [] op = "xgetitem"   -> [m |-> f, res |-> IF SMDom(f) = {} THEN RKeyErr ELSE RTypeErr]

\* range queries (C02): the entries whose keys lie in the interval; an omitted
\* bound (0) is unbounded, an exclusive omitted bound drops the overall
\* smallest / largest key only
RangeIdx(cs, lo, hi, xlo, xhi) ==
  LET n == Len(cs)
      okmin(j) == IF lo = 0 THEN (~xlo \/ j > 1) ELSE (IF xlo THEN cs[j] > lo ELSE cs[j] >= lo)
      okmax(j) == IF hi = 0 THEN (~xhi \/ j < n) ELSE (IF xhi THEN cs[j] < hi ELSE cs[j] <= hi)
  IN {j \in 1..n : okmin(j) /\ okmax(j)}
RangeKeys(cs, lo, hi, xlo, xhi) ==
  LET S == RangeIdx(cs, lo, hi, xlo, xhi) IN
  IF S = {} THEN <<>>
  ELSE LET a == CHOOSE x \in S : \A y \in S : x <= y
           b == CHOOSE x \in S : \A y \in S : x >= y
       IN SubSeq(cs, a, b)       \* the admitted indices are contiguous
MinKeySpec(cs, b) == \* least key >= b (b = 0: least key); 0 = ValueError
  LET S == {j \in 1..Len(cs) : b = 0 \/ cs[j] >= b} IN
  IF S = {} THEN 0 ELSE cs[CHOOSE x \in S : \A y \in S : x <= y]
MaxKeySpec(cs, b) ==
  LET S == {j \in 1..Len(cs) : b = 0 \/ cs[j] <= b} IN
  IF S = {} THEN 0 ELSE cs[CHOOSE x \in S : \A y \in S : x >= y]
\* byValue(min) (IMerge/IDictionaryIsh): the (value, key) pairs with value >= min, "normalized" by min - division for the
\* numeric value families when min > 0, nothing for object values -, as a sequence in descending order of (value, key).
\* cs, vs: keys and values in key order (vs are numbers here: ranks for object values, multiples of 1/scale for the float
\* families, chosen so that the division is exact); norm: a numeric family.
\* Deviation "Py_ByValueNotNormalized" (pure Python implementation, recorded finding): no normalization.
ByValuePairs(cs, vs, minv, norm, scale) ==
  {<<(IF norm /\ minv > 0 THEN (vs[j] * scale) \div minv ELSE vs[j]), cs[j]>> : j \in {i \in 1..Len(cs) : vs[i] >= minv}}
PairGt(a, b) == a[1] > b[1] \/ (a[1] = b[1] /\ a[2] > b[2])
ByValueSpec(cs, vs, minv, norm, scale) ==
  LET S == ByValuePairs(cs, vs, minv, norm, scale) IN
  CHOOSE q \in [1..Cardinality(S) -> S] : \A i, j \in 1..Cardinality(S) : i < j => PairGt(q[i], q[j])
=============================================================================
