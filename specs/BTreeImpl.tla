------------------------------ MODULE BTreeImpl ------------------------------
(***************************************************************************)
(* Layer B: the B+tree exactly as zopefoundation/BTrees builds it          *)
(* (_BTree_set / BTree_grow / BTree_split_root / bucket_split / delete     *)
(* with separator refresh and unlink of emptied children; _base.py does    *)
(* the same), side by side with Layer A: the sorted map `m` it must        *)
(* implement.  Every public mutator is one action; its implementation-     *)
(* shaped result and its promised result are recorded in `res` and must    *)
(* agree (ResOK), and the in-order leaf chain must equal `m` (AbsOK).      *)
(*                                                                         *)
(* Node ids are an artefact: VIEW renders the tree without them.           *)
(* Keys are 1..N; key and value ranks are embedded into each family's      *)
(* domain by the harness (harness/embed.py).                               *)
(***************************************************************************)
EXTENDS Naturals, Integers, Sequences, FiniteSets, TLC, Json

CONSTANTS Keys,      \* model keys, a set of positive naturals
          Vals,      \* model values ({1} for sets)
          MaxLeaf,   \* max_leaf_size
          MaxInt,    \* max_internal_size
          Dev        \* deviations (named departures of the code from the promise)

VARIABLES heap,      \* node id -> node
          m,         \* Layer A: the sorted map (function on a subset of Keys)
          act,       \* last action        (observation, not in VIEW)
          res        \* [impl, abs] result (observation, not in VIEW)
vars == <<heap, m, act, res>>

Root == 1
Nil  == 0
None == 0            \* "no bound"; model keys are >= 1

Leaf(ks, vs, nx)        == [t |-> "L", ks |-> ks, vs |-> vs, nx |-> nx]
Inner(kids, seps, fb)   == [t |-> "I", kids |-> kids, seps |-> seps, fb |-> fb]
\* seps has the same length as kids; seps[1] is the unused slot-0 key (kept 0)

NLen(n) == IF n.t = "L" THEN Len(n.ks) ELSE Len(n.kids)

InsertAt(s, i, e) == SubSeq(s, 1, i-1) \o <<e>> \o SubSeq(s, i, Len(s))
RemoveAt(s, i)    == SubSeq(s, 1, i-1) \o SubSeq(s, i+1, Len(s))
SetAt(s, i, e)    == [s EXCEPT ![i] = e]

\* BTREE_SEARCH (BTreeModuleTemplate.c:316, _base.py _Tree._search):
\* lo=0, hi=len, i=hi>>1; while i>lo: cmp(data[i].key,k) <0 -> lo=i; >0 -> hi=i; =0 break
RECURSIVE BSearch(_, _, _, _)
BSearch(seps, k, lo, hi) ==
  LET i == (lo + hi) \div 2 IN
  IF i > lo
    THEN IF seps[i+1] < k THEN BSearch(seps, k, i, hi)
         ELSE IF seps[i+1] > k THEN BSearch(seps, k, lo, i)
         ELSE i
    ELSE i
TreeSearch(n, k) == BSearch(n.seps, k, 0, Len(n.kids)) + 1     \* 1-based child index

Pos(ks, k) == Cardinality({j \in 1..Len(ks) : ks[j] < k}) + 1  \* insertion point, 1-based
Has(ks, k) == \E j \in 1..Len(ks) : ks[j] = k

NewId(h) == CHOOSE i \in 1..(Cardinality(DOMAIN h) + 1) : i \notin DOMAIN h
Ext(h, id, n) == [x \in DOMAIN h \cup {id} |-> IF x = id THEN n ELSE h[x]]
Upd(h, id, n) == [h EXCEPT ![id] = n]

-----------------------------------------------------------------------------
(* Growth: BTree_grow(self, index) splits child `index` at len/2; the new   *)
(* sibling takes the upper part; separator = new leaf's first key or the    *)
(* interior sibling's slot-0 key.  Afterwards a root with                   *)
(* len >= 2*max_internal_size is split (BTree_split_root: all data moves    *)
(* into one new child which is then split by a recursive grow).             *)
(* `isroot`: only the tree object the user holds checks for a root split -- *)
(* the C code tests `self->len >= max_internal_size * 2` in BTree_grow for  *)
(* every node, but below the root a node never gets that long because its   *)
(* parent splits it at max_internal_size + 1.                               *)
RECURSIVE SubMinG(_, _)
SubMinG(h, id) == IF h[id].t = "L" THEN h[id].ks[1] ELSE SubMinG(h, h[id].kids[1])
RECURSIVE Grow(_, _, _)
Grow(h, self, i) ==
  LET s    == h[self]
      vid  == s.kids[i]
      v    == h[vid]
      eid  == NewId(h)
      half == NLen(v) \div 2
      e == IF v.t = "L"
             THEN Leaf(SubSeq(v.ks, half+1, Len(v.ks)), SubSeq(v.vs, half+1, Len(v.vs)), v.nx)
             ELSE Inner(SubSeq(v.kids, half+1, Len(v.kids)),
                        SubSeq(v.seps, half+1, Len(v.seps)),
                        LET c == h[v.kids[half+1]] IN
                          IF c.t = "I" THEN c.fb ELSE v.kids[half+1])
      v2 == IF v.t = "L"
              THEN Leaf(SubSeq(v.ks, 1, half), SubSeq(v.vs, 1, half), eid)
              ELSE Inner(SubSeq(v.kids, 1, half), SubSeq(v.seps, 1, half), v.fb)
      \* (the pure-Python _grow asks the new sibling for its minKey(); the C code hands up the separator stored at the split
      \*  point.  The same thing as long as separators are exact; on a tree with loose separators - see Loosen - the two
      \*  build different, equally valid shapes: named deviation "Py_GrowSepIsMinKey", recorded finding D52)
      sep == IF v.t = "L" THEN e.ks[1]
             ELSE IF "Py_GrowSepIsMinKey" \in Dev THEN SubMinG(h, v.kids[half+1]) ELSE e.seps[1]
      s2 == Inner(InsertAt(s.kids, i+1, eid), InsertAt(s.seps, i+1, sep), s.fb)
      h2 == Upd(Upd(Ext(h, eid, e), vid, v2), self, s2)
  IN IF Len(s2.kids) >= 2 * MaxInt
       THEN LET cid == NewId(h2)
                c   == Inner(s2.kids, s2.seps, s2.fb)
                r   == Inner(<<cid>>, <<0>>, s2.fb)
                h3  == Upd(Ext(h2, cid, c), self, r)
            IN Grow(h3, self, 1)
       ELSE h2

(* _BTree_set with a value.  unique = TRUE is insert()/setdefault()/add():  *)
(* an existing key is left alone.  Returns [h, st]: st = 1 iff a key was    *)
(* added (size change), 0 otherwise (replaced or untouched).                *)
RECURSIVE SetR(_, _, _, _, _)
SetR(h, self, k, v, unique) ==
  LET s0  == h[self]
      bid == NewId(h)
      \* empty tree: BTree_grow(self, 0) makes an empty first leaf
      h0  == IF Len(s0.kids) = 0
               THEN Upd(Ext(h, bid, Leaf(<<>>, <<>>, Nil)), self, Inner(<<bid>>, <<0>>, bid))
               ELSE h
      s   == h0[self]
      i   == TreeSearch(s, k)
      cid == s.kids[i]
      c   == h0[cid]
      r == IF c.t = "I" THEN SetR(h0, cid, k, v, unique)
           ELSE IF Has(c.ks, k)
                  THEN IF unique THEN [h |-> h0, st |-> 0]
                       ELSE [h |-> Upd(h0, cid, Leaf(c.ks, SetAt(c.vs, Pos(c.ks, k), v), c.nx)), st |-> 0]
           ELSE [h |-> Upd(h0, cid, Leaf(InsertAt(c.ks, Pos(c.ks, k), k),
                                        InsertAt(c.vs, Pos(c.ks, k), v), c.nx)), st |-> 1]
  IN IF r.st = 0 THEN r
     ELSE LET c2 == r.h[cid]
              toobig == NLen(c2) > (IF c2.t = "I" THEN MaxInt ELSE MaxLeaf)
          IN IF toobig THEN [h |-> Grow(r.h, self, i), st |-> 1] ELSE r

RECURSIVE LastBucket(_, _)
LastBucket(h, id) == LET n == h[id] IN
  IF n.t = "L" THEN id ELSE LastBucket(h, n.kids[Len(n.kids)])

\* Bucket_deleteNextBucket: unlink the successor of leaf b
DeleteNext(h, b) == LET n == h[b] IN
  IF n.nx = Nil THEN h ELSE Upd(h, b, Leaf(n.ks, n.vs, h[n.nx].nx))

(* _BTree_set without value (delete).  st: 0 = KeyError, 1 = removed,       *)
(* 2 = removed and this subtree's first leaf went away.                     *)
RECURSIVE DelR(_, _, _)
DelR(h, self, k) ==
  LET s == h[self] IN
  IF Len(s.kids) = 0 THEN [h |-> h, st |-> 0] ELSE
  LET i   == TreeSearch(s, k)
      cid == s.kids[i]
      c   == h[cid]
      r == IF c.t = "I" THEN DelR(h, cid, k)
           ELSE IF ~Has(c.ks, k) THEN [h |-> h, st |-> 0]
           ELSE [h |-> Upd(h, cid, Leaf(RemoveAt(c.ks, Pos(c.ks, k)),
                                        RemoveAt(c.vs, Pos(c.ks, k)), c.nx)), st |-> 1]
  IN IF r.st = 0 THEN r ELSE
  LET h1   == r.h
      c1   == h1[cid]
      clen == NLen(c1)
      \* separator refresh: only if min > 0, child non-empty, deleted key == separator
      s1 == IF i > 1 /\ clen > 0 /\ s.seps[i] = k
              THEN LET b == IF c1.t = "I" THEN h1[c1.fb] ELSE c1 IN
                   Inner(s.kids, [s.seps EXCEPT ![i] = b.ks[1]], s.fb)
              ELSE s
      h2  == IF r.st = 2 /\ i > 1 THEN DeleteNext(h1, LastBucket(h1, s.kids[i-1])) ELSE h1
      s2  == IF r.st = 2 /\ i = 1 THEN Inner(s1.kids, s1.seps, h1[cid].fb) ELSE s1
      st2 == IF r.st = 2 /\ i > 1 THEN 1 ELSE r.st
  IN IF clen > 0 THEN [h |-> Upd(h2, self, s2), st |-> st2] ELSE
  LET isleaf == c1.t = "L"
      h3  == IF isleaf /\ i > 1 THEN DeleteNext(h2, s.kids[i-1]) ELSE h2
      s3  == IF isleaf /\ i = 1 THEN Inner(s2.kids, s2.seps, c1.nx) ELSE s2
      st3 == IF isleaf /\ i = 1 THEN 2 ELSE st2
      kids4 == RemoveAt(s3.kids, i)
      seps4 == IF i = 1 /\ Len(s3.seps) > 1
                 THEN <<0>> \o SubSeq(s3.seps, 3, Len(s3.seps))
                 ELSE RemoveAt(s3.seps, i)
      s4 == Inner(kids4, seps4, s3.fb)
  IN [h |-> Upd(h3, self, s4), st |-> st3]

-----------------------------------------------------------------------------
\* reachability and garbage collection (ids of dropped nodes are reusable)
RECURSIVE Reach(_, _)
Reach(h, frontier) ==
  LET nxt == frontier \cup UNION { (IF h[id].t = "L" THEN {h[id].nx}
                                     ELSE {h[id].fb} \cup {h[id].kids[j] : j \in 1..Len(h[id].kids)}) \ {Nil}
                                   : id \in frontier }
  IN IF nxt = frontier THEN frontier ELSE Reach(h, nxt)
GC(h) == LET r == Reach(h, {Root}) IN [x \in r |-> h[x]]

\* in-order contents via the leaf chain
RECURSIVE ChainK(_, _, _)
ChainK(h, b, fuel) == IF b = Nil \/ fuel = 0 THEN <<>> ELSE h[b].ks \o ChainK(h, h[b].nx, fuel - 1)
RECURSIVE ChainV(_, _, _)
ChainV(h, b, fuel) == IF b = Nil \/ fuel = 0 THEN <<>> ELSE h[b].vs \o ChainV(h, h[b].nx, fuel - 1)
Contents(h) == ChainK(h, h[Root].fb, Cardinality(DOMAIN h))
ContentsV(h) == ChainV(h, h[Root].fb, Cardinality(DOMAIN h))

\* lookup as the code does it: descend by separators, then look in that leaf only
RECURSIVE FindLeaf(_, _, _)
FindLeaf(h, self, k) == LET s == h[self] IN
  IF Len(s.kids) = 0 THEN Nil
  ELSE LET c == s.kids[TreeSearch(s, k)] IN
       IF h[c].t = "L" THEN c ELSE FindLeaf(h, c, k)
ImplHas(h, k) == LET b == FindLeaf(h, Root, k) IN b # Nil /\ Has(h[b].ks, k)
ImplGet(h, k) == LET b == FindLeaf(h, Root, k) IN h[b].vs[Pos(h[b].ks, k)]
ImplMinKey(h) == h[h[Root].fb].ks[1]     \* popitem / set pop use minKey()
ImplEmpty(h)  == Len(h[Root].kids) = 0

-----------------------------------------------------------------------------
\* canonical rendering (VIEW): the tree without node ids
RECURSIVE Render(_, _)
Render(h, id) == LET n == h[id] IN
  IF n.t = "L" THEN <<"L", n.ks, n.vs>>
  ELSE <<"I", [j \in 1..Len(n.kids) |-> Render(h, n.kids[j])], SubSeq(n.seps, 2, Len(n.seps))>>
View == Render(heap, Root)

RECURSIVE Descend(_, _)
Descend(h, id) == LET n == h[id] IN
  IF n.t = "L" THEN <<id>>
  ELSE IF Len(n.kids) = 0 THEN <<>>
  ELSE LET RECURSIVE cat(_)
           cat(j) == IF j > Len(n.kids) THEN <<>> ELSE Descend(h, n.kids[j]) \o cat(j+1)
       IN cat(1)
RECURSIVE ChainIds(_, _, _)
ChainIds(h, b, fuel) == IF b = Nil \/ fuel = 0 THEN <<>> ELSE <<b>> \o ChainIds(h, h[b].nx, fuel - 1)

\* projection shared with the harness (harness/proj.py builds the same value
\* from a real tree): leaves numbered in descent order, 0 = none, 999 = foreign
LeafIdx(h, id) == LET d == Descend(h, Root) IN IF id = Nil THEN 0 ELSE
                  IF \E j \in 1..Len(d) : d[j] = id THEN CHOOSE j \in 1..Len(d) : d[j] = id ELSE 999
RECURSIVE Proj(_, _)
Proj(h, id) == LET n == h[id] IN
  IF n.t = "L" THEN [t |-> "L", ks |-> n.ks, vs |-> n.vs, nx |-> LeafIdx(h, n.nx)]
  ELSE [t |-> "I", kids |-> [j \in 1..Len(n.kids) |-> Proj(h, n.kids[j])],
        seps |-> SubSeq(n.seps, 2, Len(n.seps)), fb |-> LeafIdx(h, n.fb)]

-----------------------------------------------------------------------------
(* Layer A helpers *)
Dom(f) == DOMAIN f
MapSet(f, k, v) == [x \in Dom(f) \cup {k} |-> IF x = k THEN v ELSE f[x]]
MapDel(f, k)    == [x \in Dom(f) \ {k} |-> f[x]]
EmptyMap == [x \in {} |-> 0]
RECURSIVE SortSet(_)
SortSet(S) == IF S = {} THEN <<>> ELSE
  LET mn == CHOOSE x \in S : \A y \in S : x <= y IN <<mn>> \o SortSet(S \ {mn})
AbsKeys(f) == SortSet(Dom(f))
AbsVals(f) == LET ks == AbsKeys(f) IN [j \in 1..Len(ks) |-> f[ks[j]]]

OK       == <<"ok">>
V(x)     == <<"v", x>>
KV(k, v) == <<"kv", k, v>>
KeyErr   == <<"KeyError">>

EmptyTree == (Root :> Inner(<<>>, <<>>, Nil))
Init == /\ heap = EmptyTree
        /\ m = EmptyMap
        /\ act = [op |-> "init", k |-> 0, v |-> 0]
        /\ res = [impl |-> OK, abs |-> OK]

Step(h2, m2, a, ri, ra) ==
  /\ heap' = GC(h2)
  /\ m' = m2
  /\ act' = a
  /\ res' = [impl |-> ri, abs |-> ra]

\* t[k] = v
SetItem(k, v) ==
  Step(SetR(heap, Root, k, v, FALSE).h, MapSet(m, k, v),
       [op |-> "setitem", k |-> k, v |-> v], OK, OK)

\* t.insert(k, v) / s.add(k): 1 if added, 0 if the key was there (left alone)
InsertU(k, v) ==
  LET r == SetR(heap, Root, k, v, TRUE) IN
  Step(IF r.st = 0 THEN heap ELSE r.h,      \* rolled back: an empty tree stays empty
       IF k \in Dom(m) THEN m ELSE MapSet(m, k, v),
       [op |-> "insert", k |-> k, v |-> v],
       V(r.st), V(IF k \in Dom(m) THEN 0 ELSE 1))

\* t.setdefault(k, v): BTree_setdefault = get, and set when that raised KeyError
SetDefault(k, v) ==
  LET has == ImplHas(heap, k) IN
  Step(IF has THEN heap ELSE SetR(heap, Root, k, v, TRUE).h,
       IF k \in Dom(m) THEN m ELSE MapSet(m, k, v),
       [op |-> "setdefault", k |-> k, v |-> v],
       V(IF has THEN ImplGet(heap, k) ELSE v), V(IF k \in Dom(m) THEN m[k] ELSE v))

\* del t[k] / s.remove(k)
DelItem(k) ==
  LET r == DelR(heap, Root, k) IN
  Step(IF r.st = 0 THEN heap ELSE r.h,
       IF k \in Dom(m) THEN MapDel(m, k) ELSE m,
       [op |-> "delitem", k |-> k, v |-> 0],
       IF r.st = 0 THEN KeyErr ELSE OK, IF k \in Dom(m) THEN OK ELSE KeyErr)

\* t.pop(k) (no default): BTree_pop = get then delete
Pop(k) ==
  LET has == ImplHas(heap, k)
      r == DelR(heap, Root, k) IN
  Step(IF has THEN r.h ELSE heap,
       IF k \in Dom(m) THEN MapDel(m, k) ELSE m,
       [op |-> "pop", k |-> k, v |-> 0],
       IF has THEN V(ImplGet(heap, k)) ELSE KeyErr, IF k \in Dom(m) THEN V(m[k]) ELSE KeyErr)

\* t.popitem() / s.pop(): smallest key
PopItem ==
  LET e  == ImplEmpty(heap)
      k  == ImplMinKey(heap)
      ak == CHOOSE x \in Dom(m) : \A y \in Dom(m) : x <= y IN
  Step(IF e THEN heap ELSE DelR(heap, Root, k).h,
       IF Dom(m) = {} THEN m ELSE MapDel(m, ak),
       [op |-> "popitem", k |-> 0, v |-> 0],
       IF e THEN KeyErr ELSE KV(k, ImplGet(heap, k)), IF Dom(m) = {} THEN KeyErr ELSE KV(ak, m[ak]))

\* t.clear()
Clear ==
  Step(EmptyTree, EmptyMap, [op |-> "clear", k |-> 0, v |-> 0], OK, OK)

(* Writes with arguments outside the family's domain.  The key is converted  *)
(* first, so an unusable key touches nothing.  The value is converted in    *)
(* the leaf, i.e. after an empty tree has already grown its first (empty)   *)
(* leaf: the error exit must undo that (BTreeTemplate.c:974-984).           *)
TypeErr == <<"TypeError">>
BadKey ==
  Step(heap, m, [op |-> "badkey", k |-> 0, v |-> 0], TypeErr, TypeErr)
BadVal(k) ==
  LET wasEmpty == ImplEmpty(heap)
      bid   == NewId(heap)
      grown == IF wasEmpty
                 THEN Upd(Ext(heap, bid, Leaf(<<>>, <<>>, Nil)), Root, Inner(<<bid>>, <<0>>, bid))
                 ELSE heap
      back  == IF wasEmpty /\ "NoRollbackOfGrownTree" \notin Dev THEN EmptyTree ELSE grown
  IN Step(back, m, [op |-> "badval", k |-> k, v |-> 0], TypeErr, TypeErr)

Next == \/ \E k \in Keys, v \in Vals : SetItem(k, v) \/ InsertU(k, v) \/ SetDefault(k, v)
        \/ BadKey \/ \E k \in Keys : BadVal(k)
        \/ \E k \in Keys : DelItem(k) \/ Pop(k)
        \/ PopItem \/ Clear
\* the two structural generators only (every other mutator is a composition
\* of these as far as the tree shape is concerned)
NextCore == \E k \in Keys : (\E v \in Vals : SetItem(k, v)) \/ DelItem(k)

\* effective steps only (an insert of an absent key, a delete of a present
\* one, now and then another mutator): what -simulate walks to get deep trees
NextEff == \/ \E k \in Keys \ Dom(m), v \in Vals : SetItem(k, v) \/ InsertU(k, v)
           \/ \E k \in Dom(m) : DelItem(k) \/ Pop(k) \/ (\E v \in Vals : SetItem(k, v))
           \/ (Dom(m) # {} /\ PopItem)
SpecEff  == Init /\ [][NextEff]_vars

Spec     == Init /\ [][Next]_vars
SpecCore == Init /\ [][NextCore]_vars

(* Separators are lower bounds, not copies of keys.  The code of today keeps every separator equal to the smallest  *)
(* key below it, but a tree loaded from a stored state (older releases, the repository's own "degenerate" test      *)
(* tree, any legal __setstate__) may carry smaller ones: any s with                                                  *)
(*      largest key of the left neighbour's subtree  <  s  <=  smallest key of the child's subtree.                  *)
(* Loosen is that step (one separator replaced through the node's __setstate__); every operator above must work on  *)
(* such trees as well.  Bounds == Keys plus one rank below and one above (what range queries use as outside bounds). *)
RECURSIVE SubMin(_, _)
SubMin(h, id) == IF h[id].t = "L" THEN h[id].ks[1] ELSE SubMin(h, h[id].kids[1])
RECURSIVE SubMax(_, _)
SubMax(h, id) == LET n == h[id] IN IF n.t = "L" THEN n.ks[Len(n.ks)] ELSE SubMax(h, n.kids[Len(n.kids)])
RECURSIVE PathTo(_, _, _)
PathTo(h, from, id) ==            \* child indices from `from` down to id; <<-1>> when id is not below it
  IF from = id THEN <<>>
  ELSE LET n == h[from] IN
       IF n.t = "L" THEN <<-1>>
       ELSE LET cands == {j \in 1..Len(n.kids) : PathTo(h, n.kids[j], id) # <<-1>>} IN
            IF cands = {} THEN <<-1>>
            ELSE LET j == CHOOSE x \in cands : TRUE IN <<j>> \o PathTo(h, n.kids[j], id)
SepChoices == (Keys \cup {(CHOOSE x \in Keys : \A y \in Keys : x <= y) - 1}) \ {0}
Loosen(id, i, s) ==
  /\ heap[id].t = "I" /\ i \in 2..Len(heap[id].kids)
  /\ s # heap[id].seps[i]
  /\ SubMax(heap, heap[id].kids[i-1]) < s /\ s <= SubMin(heap, heap[id].kids[i])
  /\ Step([heap EXCEPT ![id] = Inner(heap[id].kids, [heap[id].seps EXCEPT ![i] = s], heap[id].fb)], m,
          [op |-> "loosen", k |-> s, v |-> i, p |-> PathTo(heap, Root, id)], OK, OK)
NextLoose == NextCore \/ \E id \in DOMAIN heap, i \in 2..(2 * MaxInt), s \in SepChoices : Loosen(id, i, s)
SpecLoose == Init /\ [][NextLoose]_vars
\* ... loosened at the end only (nothing but further loosening follows a Loosen): the states C06 round-trips - after a split
\* the two implementations would differ in shape (D52), which is C09's business
NextLooseEnd == (act.op # "loosen" /\ NextCore) \/ \E id \in DOMAIN heap, i \in 2..(2 * MaxInt), s \in SepChoices : Loosen(id, i, s)
SpecLooseEnd == Init /\ [][NextLooseEnd]_vars
\* ... and every public mutator on such trees
NextLooseAll == Next \/ \E id \in DOMAIN heap, i \in 2..(2 * MaxInt), s \in SepChoices : Loosen(id, i, s)
SpecLooseAll == Init /\ [][NextLooseAll]_vars

-----------------------------------------------------------------------------
(* C01: refinement of the sorted map *)
AbsOK == /\ Contents(heap) = AbsKeys(m)
         /\ ContentsV(heap) = AbsVals(m)
ResOK == res.impl = res.abs
LookupOK == \A k \in Keys :
   /\ ImplHas(heap, k) = (k \in Dom(m))
   /\ ImplHas(heap, k) => ImplGet(heap, k) = m[k]
\* a call that raises leaves the contents alone
ErrUnchanged == [][res'.abs \in {KeyErr, TypeErr} => (m' = m /\ Render(heap', Root) = Render(heap, Root))]_vars

(* C03: soundness of the structure *)
Sorted(s) == \A a, b \in 1..Len(s) : a < b => s[a] < s[b]
ChainOK  == ChainIds(heap, heap[Root].fb, Cardinality(DOMAIN heap) + 1) = Descend(heap, Root)
SortedOK == Sorted(Contents(heap))
NoEmpty  == \A id \in DOMAIN heap : id # Root => NLen(heap[id]) > 0
SizeOK   == \A id \in DOMAIN heap :
              IF heap[id].t = "L" THEN Len(heap[id].ks) <= MaxLeaf
              ELSE IF id = Root THEN Len(heap[id].kids) < 2 * MaxInt
              ELSE Len(heap[id].kids) <= MaxInt
KindsOK  == \A id \in DOMAIN heap : heap[id].t = "I" =>
              \A a, b \in 1..Len(heap[id].kids) : heap[heap[id].kids[a]].t = heap[heap[id].kids[b]].t
FirstOK  == \A id \in DOMAIN heap : heap[id].t = "I" /\ Len(heap[id].kids) > 0 =>
              LET c == heap[heap[id].kids[1]] IN
              heap[id].fb = IF c.t = "L" THEN heap[id].kids[1] ELSE c.fb
\* every key inside the range its ancestors' separators promise: lo <= k < hi
RECURSIVE InRange(_, _, _, _)
InRange(h, id, lo, hi) == LET n == h[id] IN
  IF n.t = "L" THEN \A j \in 1..Len(n.ks) : (lo = 0 \/ lo <= n.ks[j]) /\ (hi = 0 \/ n.ks[j] < hi)
  ELSE /\ \A j \in 2..Len(n.kids) : (lo = 0 \/ lo <= n.seps[j]) /\ (hi = 0 \/ n.seps[j] < hi)
       /\ \A j \in 2..(Len(n.kids) - 1) : n.seps[j] < n.seps[j+1]
       /\ \A j \in 1..Len(n.kids) :
            InRange(h, n.kids[j], IF j = 1 THEN lo ELSE n.seps[j],
                    IF j = Len(n.kids) THEN hi ELSE n.seps[j+1])
RangeOK == InRange(heap, Root, 0, 0)
Sound == ChainOK /\ SortedOK /\ NoEmpty /\ SizeOK /\ KindsOK /\ FirstOK /\ RangeOK

\* JSON dump of every explored transition (ACTION_CONSTRAINT; one worker)
Dump == PrintT(<<"TR", ToJson([from |-> Proj(heap, Root), act |-> act', res |-> res'.impl,
                               to |-> Proj(heap', Root)])>>)
=============================================================================
