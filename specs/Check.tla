-------------------------------- MODULE Check --------------------------------
(***************************************************************************)
(* C18: the diagnostic checkers, transcribed, on tree values with leaf     *)
(* identities:                                                             *)
(*   leaf     [t |-> "L", id, ks, vs, nx]    nx = id of the successor leaf *)
(*                                           (0 = none, 999 = a leaf that  *)
(*                                           is not part of the tree)      *)
(*   interior [t |-> "I", kids, seps, fb]    fb = id of the first leaf     *)
(*                                           (0 = none), Len(seps) =       *)
(*                                           Len(kids) - 1                 *)
(* A pristine tree numbers its leaves 1..n in descent order.  Corruptions  *)
(* keep the identities, so "the same pointer" means "the same id".         *)
(*                                                                         *)
(*   CCheck    BTree_check_inner          (BTreeTemplate.c:73)             *)
(*   PyCheck   _Tree._check               (_base.py)                       *)
(*   WalkOK    check.check(): Walker.walk + Checker.check_sorted           *)
(*   Broken    what the property calls damage: key order, containment in   *)
(*             the separators' ranges, leaf linking (incl. firstbucket),   *)
(*             uniform child kinds, non-empty nodes                        *)
(*   Mut       every single corruption of a tree (the alterations listed   *)
(*             in the property, applied to every position)                 *)
(***************************************************************************)
EXTENDS Naturals, Sequences, FiniteSets

CONSTANT CDev       \* named deviations of the checkers (must be refuted)

Foreign == 999

RECURSIVE ILeaves(_)
ILeaves(p) == IF p.t = "L" THEN <<p>>
              ELSE LET RECURSIVE cat(_)
                       cat(j) == IF j > Len(p.kids) THEN <<>> ELSE ILeaves(p.kids[j]) \o cat(j + 1)
                   IN cat(1)
IKeys(p) == LET ls == ILeaves(p)
                RECURSIVE cat(_)
                cat(j) == IF j > Len(ls) THEN <<>> ELSE ls[j].ks \o cat(j + 1)
            IN cat(1)
NodeLen(p) == IF p.t = "L" THEN Len(p.ks) ELSE Len(p.kids)

\* "the pointer stored as firstbucket of p" resp. "pointer to node p as a leaf"
\* an interior node is never equal to a leaf pointer: -1
AsLeafPtr(p) == IF p.t = "L" THEN p.id ELSE 1000
\* what reading `->firstbucket` of a child yields.  C reads the field at the
\* same offset of a leaf (its `next`) when the child is of the wrong kind;
\* the verdict never depends on it because the kind check then fails.
FbOf(p) == IF p.t = "I" THEN p.fb ELSE p.nx

-----------------------------------------------------------------------------
(* BTree_check_inner(self, nextbucket) *)
RECURSIVE CCheck(_, _)
CCheck(p, nxt) ==
  LET n == Len(p.kids) IN
  IF n = 0 THEN p.fb = 0
  ELSE
  /\ p.fb # 0
  /\ IF p.kids[1].t = "I"
       THEN /\ p.fb = p.kids[1].fb
            /\ \A i \in 1..n :
                 LET c == p.kids[i] IN
                 /\ c.t = "I"
                 /\ ("CNoEmptyInteriorCheck" \in CDev \/ Len(c.kids) >= 1)
                 /\ CCheck(c, IF i = n THEN nxt ELSE FbOf(p.kids[i + 1]))
       ELSE /\ p.fb = AsLeafPtr(p.kids[1])
            /\ \A i \in 1..n :
                 LET c == p.kids[i] IN
                 /\ c.t = "L"
                 /\ Len(c.ks) >= 1
                 /\ c.nx = (IF i = n THEN nxt ELSE AsLeafPtr(p.kids[i + 1]))
CAccepts(p) == CCheck(p, 0)

(* _Tree._check(nextbucket) *)
RECURSIVE PyCheck(_, _)
PyCheck(p, nxt) ==
  LET n == Len(p.kids) IN
  IF n = 0 THEN p.fb = 0
  ELSE
  /\ p.fb # 0
  /\ \A i \in 1..n : p.kids[i].t = p.kids[1].t /\ NodeLen(p.kids[i]) > 0
  /\ IF p.kids[1].t = "I"
       THEN /\ p.fb = p.kids[1].fb
            /\ \A i \in 1..(n - 1) : PyCheck(p.kids[i], p.kids[i + 1].fb)
            /\ PyCheck(p.kids[n], nxt)
       ELSE /\ p.fb = p.kids[1].id
            /\ \A i \in 1..(n - 1) : p.kids[i].nx = p.kids[i + 1].id
            /\ p.kids[n].nx = nxt
PyAccepts(p) == PyCheck(p, 0)

(* check.check(): depth-first walk pushing [lo, hi) down through every      *)
(* separator; check_sorted on the separators of every interior node and    *)
(* the keys of every leaf.  0 = no bound.                                  *)
SortedIn(keys, lo, hi) ==
  \A i \in 1..Len(keys) :
    /\ (lo = 0 \/ lo <= keys[i])
    /\ (hi = 0 \/ keys[i] < hi)
    /\ (i < Len(keys) => keys[i] < keys[i + 1])
RECURSIVE WalkOK(_, _, _)
WalkOK(p, lo, hi) ==
  IF p.t = "L" THEN SortedIn(p.ks, lo, hi)
  ELSE LET n == Len(p.kids) IN
       /\ SortedIn(p.seps, lo, hi)
       /\ \A i \in 1..n :
            WalkOK(p.kids[i],
                   IF i > 1 THEN p.seps[i - 1]
                   ELSE IF "WalkEdgeBoundsNotInherited" \in CDev THEN 0 ELSE lo,
                   IF i < n THEN p.seps[i]
                   ELSE IF "WalkEdgeBoundsNotInherited" \in CDev THEN 0 ELSE hi)
WAccepts(p) == WalkOK(p, 0, 0)

-----------------------------------------------------------------------------
(* Damage, as the property lists it *)
Sorted(s) == \A a \in 1..(Len(s) - 1) : s[a] < s[a + 1]
ChainOK(p) == LET ls == ILeaves(p) IN
  \A j \in 1..Len(ls) : ls[j].nx = IF j = Len(ls) THEN 0 ELSE ls[j + 1].id
RECURSIVE Leftmost(_)
Leftmost(p) == IF p.t = "L" THEN p.id ELSE IF Len(p.kids) = 0 THEN 0 ELSE Leftmost(p.kids[1])
RECURSIVE FirstOK(_)
FirstOK(p) == p.t = "L" \/ (p.fb = Leftmost(p) /\ \A j \in 1..Len(p.kids) : FirstOK(p.kids[j]))
RECURSIVE NoEmpty(_, _)
NoEmpty(p, isroot) ==
  IF p.t = "L" THEN Len(p.ks) > 0
  ELSE (isroot \/ Len(p.kids) > 0) /\ \A j \in 1..Len(p.kids) : NoEmpty(p.kids[j], FALSE)
RECURSIVE KindsOK(_)
KindsOK(p) == p.t = "L" \/ (/\ \A a, b \in 1..Len(p.kids) : p.kids[a].t = p.kids[b].t
                            /\ \A j \in 1..Len(p.kids) : KindsOK(p.kids[j]))
RECURSIVE InRange(_, _, _)
InRange(p, lo, hi) ==
  IF p.t = "L" THEN \A j \in 1..Len(p.ks) : (lo = 0 \/ lo <= p.ks[j]) /\ (hi = 0 \/ p.ks[j] < hi)
  ELSE /\ \A j \in 1..Len(p.seps) : (lo = 0 \/ lo <= p.seps[j]) /\ (hi = 0 \/ p.seps[j] < hi)
       /\ Sorted(p.seps)
       /\ \A j \in 1..Len(p.kids) :
            InRange(p.kids[j], IF j = 1 THEN lo ELSE p.seps[j - 1],
                    IF j = Len(p.kids) THEN hi ELSE p.seps[j])
OrderOK(p) == LET ls == ILeaves(p) IN (\A j \in 1..Len(ls) : Sorted(ls[j].ks)) /\ Sorted(IKeys(p))
Broken(p) == ~(OrderOK(p) /\ InRange(p, 0, 0) /\ ChainOK(p) /\ FirstOK(p) /\ KindsOK(p) /\ NoEmpty(p, TRUE))

-----------------------------------------------------------------------------
(* Single corruptions.  U = the values a key or separator can be replaced  *)
(* with (one below and one above every model key included); P = the leaf   *)
(* pointers a next/firstbucket can be redirected to.                       *)
SetAt(s, i, e) == [s EXCEPT ![i] = e]
SwapAt(s, i) == [s EXCEPT ![i] = s[i + 1], ![i + 1] = s[i]]
EmptyInner == [t |-> "I", kids |-> <<>>, seps |-> <<>>, fb |-> 0]

RECURSIVE Mut(_, _, _, _)
Mut(p, U, P, isroot) ==
  IF p.t = "L" THEN
       UNION {{[p EXCEPT !.ks = SetAt(p.ks, j, u)] : u \in U \ {p.ks[j]}} : j \in 1..Len(p.ks)}   \* shift / duplicate
  \cup {[p EXCEPT !.ks = SwapAt(p.ks, j)] : j \in 1..(Len(p.ks) - 1)}                    \* swap
  \cup {[p EXCEPT !.ks = <<>>, !.vs = <<>>]}                                              \* empty the leaf
  \cup {[p EXCEPT !.nx = x] : x \in (P \cup {0}) \ {p.nx}}                                \* drop / redirect next
  ELSE
       UNION {{[p EXCEPT !.seps = SetAt(p.seps, j, u)] : u \in U \ {p.seps[j]}} : j \in 1..Len(p.seps)}
  \cup {[p EXCEPT !.fb = x] : x \in (P \cup {0}) \ {p.fb}}                                \* wrong firstbucket
  \cup UNION {{[p EXCEPT !.kids = SetAt(p.kids, j, q)] : q \in Mut(p.kids[j], U, P, FALSE)} : j \in 1..Len(p.kids)}
  \* kinds: wrap a leaf child into an interior node of its own / replace an interior child by an empty one
  \cup {[p EXCEPT !.kids = SetAt(p.kids, j, [t |-> "I", kids |-> <<p.kids[j]>>, seps |-> <<>>, fb |-> p.kids[j].id])]
          : j \in {i \in 1..Len(p.kids) : p.kids[i].t = "L"}}
  \cup {[p EXCEPT !.kids = SetAt(p.kids, j, p.kids[j].kids[1])]
          : j \in {i \in 1..Len(p.kids) : p.kids[i].t = "I" /\ Len(p.kids[i].kids) = 1 /\ p.kids[i].kids[1].t = "L"}}
  \cup {[p EXCEPT !.kids = SetAt(p.kids, j, EmptyInner)] : j \in {i \in 1..Len(p.kids) : p.kids[i].t = "I"}}
  \* an empty interior node appended (the shape the C checker once let through)
  \cup (IF Len(p.kids) > 0 /\ p.kids[1].t = "I"
          THEN {[p EXCEPT !.kids = Append(p.kids, EmptyInner), !.seps = Append(p.seps, u)] : u \in U} ELSE {})
=============================================================================
