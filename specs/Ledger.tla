------------------------------- MODULE Ledger -------------------------------
(***************************************************************************)
(* C16: what the containers own.  Each occupied key slot and value slot of *)
(* a leaf owns one reference; each separator from index 1 owns one         *)
(* reference to its key (slot 0 is unused; stale separators keep theirs).  *)
(* Owned(o) is read off the model state; the conformance run compares      *)
(* sys.getrefcount(o) - baseline(o) of the real key and value objects with *)
(* it after every replayed step, and requires the baseline again after the *)
(* container is gone.                                                      *)
(***************************************************************************)
EXTENDS BTreeImpl

Count(s, x) == Cardinality({j \in 1..Len(s) : s[j] = x})
Nodes(h) == Reach(h, {Root})
RECURSIVE LeafSlotsIn(_, _, _), SepSlotsIn(_, _, _), ValSlotsIn(_, _, _)
LeafSlotsIn(h, S, k) == IF S = {} THEN 0 ELSE LET id == CHOOSE y \in S : TRUE IN
  (IF h[id].t = "L" THEN Count(h[id].ks, k) ELSE 0) + LeafSlotsIn(h, S \ {id}, k)
SepSlotsIn(h, S, k) == IF S = {} THEN 0 ELSE LET id == CHOOSE y \in S : TRUE IN
  (IF h[id].t = "I" THEN Count(SubSeq(h[id].seps, 2, Len(h[id].seps)), k) ELSE 0) + SepSlotsIn(h, S \ {id}, k)
ValSlotsIn(h, S, v) == IF S = {} THEN 0 ELSE LET id == CHOOSE y \in S : TRUE IN
  (IF h[id].t = "L" THEN Count(h[id].vs, v) ELSE 0) + ValSlotsIn(h, S \ {id}, v)
LeafSlots(h, k) == LeafSlotsIn(h, Nodes(h), k)
SepSlots(h, k)  == SepSlotsIn(h, Nodes(h), k)
ValSlots(h, v)  == ValSlotsIn(h, Nodes(h), v)
OwnedK(h, k) == LeafSlots(h, k) + SepSlots(h, k)

\* references the structure itself holds to a node: its parent's child slot, its predecessor's `next`,
\* and the `firstbucket` of every interior node whose leftmost leaf it is
NodeRefs(h, id) ==
  LET N == Nodes(h) IN
    Cardinality({<<p, j>> \in {<<p, j>> \in N \X (1..Cardinality(DOMAIN h)) : h[p].t = "I" /\ j <= Len(h[p].kids)} : h[p].kids[j] = id})
  + Cardinality({p \in N : h[p].t = "L" /\ h[p].nx = id})
  + Cardinality({p \in N : h[p].t = "I" /\ Len(h[p].kids) > 0 /\ h[p].fb = id})
\* interior nodes below the root, in preorder
RECURSIVE PreInner(_, _)
PreInner(h, id) == LET n == h[id] IN
  IF n.t = "L" THEN <<>>
  ELSE LET RECURSIVE cat(_)
           cat(j) == IF j > Len(n.kids) THEN <<>> ELSE PreInner(h, n.kids[j]) \o cat(j + 1)
       IN (IF id = Root THEN <<>> ELSE <<id>>) \o cat(1)
LeafRefSeq(h) == LET d == Descend(h, Root) IN [j \in 1..Len(d) |-> NodeRefs(h, d[j])]
InnerRefSeq(h) == LET d == PreInner(h, Root) IN [j \in 1..Len(d) |-> NodeRefs(h, d[j])]

\* exactly one leaf slot per stored key, none for an absent one; a separator only ever names a key that
\* is or once was in its subtree's range (at most one separator per level can name the same key)
LedgerOK == \A k \in Keys : LeafSlots(heap, k) = (IF k \in Dom(m) THEN 1 ELSE 0)
ValLedgerOK == \A v \in Vals : ValSlots(heap, v) = Cardinality({k \in Dom(m) : m[k] = v})

DumpL == PrintT(<<"TR", ToJson([from |-> Proj(heap, Root), act |-> act', res |-> res'.impl, to |-> Proj(heap', Root),
                                keys |-> [k \in Keys |-> OwnedK(heap', k)], vals |-> [v \in Vals |-> ValSlots(heap', v)],
                                lrefs |-> LeafRefSeq(heap'), irefs |-> InnerRefSeq(heap')])>>)
=============================================================================
