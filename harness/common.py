"""Shared plumbing of the checks: tiers, seeds, evidence, violations,
known findings."""
import json, os, sys, time, random

VERIF = '/verif'
OUT = os.environ.get('VERIF_OUT', VERIF)        # evidence and replays of this run (seed runs redirect them)
KNOWN = os.path.join(VERIF, 'known_findings.json')
LEVELS = ('exploration', 'fault_enumeration', 'model_checking', 'proof',
          'translation_validation', 'other')


def tier():
    t = os.environ.get('VERIF_TIER', 'quick')
    for i, a in enumerate(sys.argv):
        if a == '--tier' and i + 1 < len(sys.argv):
            t = sys.argv[i + 1]
    return 'thorough' if t == 'thorough' else 'quick'


def seed():
    try:
        return int(os.environ.get('VERIF_SEED', '0'))
    except ValueError:
        return 0


def load_known():
    try:
        with open(KNOWN) as fh:
            return json.load(fh)
    except FileNotFoundError:
        return {'findings': [], 'fixed': []}


class Check:
    """One run of one property's check."""

    def __init__(self, pid, level='model_checking'):
        self.pid = pid
        self.level = level
        self.tier = tier()
        self.seed = seed()
        self.rng = random.Random(self.seed * 7919 + int(pid[1:]))
        self.t0 = time.time()
        self.violations = []      # (what, replay dict)
        self.known_hits = {}      # finding id -> count
        self.cov = dict(states=0, transitions=0, traces_validated_against_impl=0, samples=[])
        self.assumptions = []
        self.notes = {}
        # replays of an earlier run of this property are stale
        d = os.path.join(OUT, 'replays', pid)
        if os.path.isdir(d):
            for f in os.listdir(d):
                if f.startswith('v') and f.endswith('.json'):
                    os.unlink(os.path.join(d, f))
        self.known = [f for f in load_known().get('findings', []) if f.get('property') == pid
                      or pid in f.get('properties', [])]

    # ---- coverage bookkeeping
    def add_tlc(self, summ, name=None):
        self.cov['states'] += int(summ.get('distinct', 0))
        self.cov['transitions'] += int(summ.get('generated', 0))
        self.notes.setdefault('tlc_runs', []).append(dict(summ, name=name))

    def add_traces(self, n):
        self.cov['traces_validated_against_impl'] += int(n)

    def sample(self, s, cap=6):
        if len(self.cov['samples']) < cap:
            self.cov['samples'].append(s)

    def note(self, k, v):
        self.notes[k] = v

    def bump(self, k, n=1):
        self.notes[k] = self.notes.get(k, 0) + n

    # ---- verdicts
    def violation(self, what, replay):
        """record a violation unless a listed known finding explains it"""
        for f in self.known:
            if _matches(f, what, replay):
                self.known_hits[f['id']] = self.known_hits.get(f['id'], 0) + 1
                return False
        if len(self.violations) < 50:
            self.violations.append((what, replay))
        else:
            self.violations.append((what, None))
        return True

    def known_finding(self, fid, n=1):
        self.known_hits[fid] = self.known_hits.get(fid, 0) + n

    def finish(self, exhaustive=False, extra_cov=None):
        wall = time.time() - self.t0
        cov = dict(self.cov)
        cov['exhaustive'] = bool(exhaustive)
        if extra_cov:
            cov.update(extra_cov)
        cov.update({k: v for k, v in self.notes.items() if k not in cov})
        if not cov.get('samples'):
            cov['samples'] = ['(none)']
        # exploration-style keys for levels that need them
        cov.setdefault('evaluations', max(1, cov.get('traces_validated_against_impl', 0) + cov.get('transitions', 0)))
        cov.setdefault('distinct_nontrivial', max(2, cov.get('states', 0)))
        cov.setdefault('rule', 'distinct model states (tree rendering without node ids) explored by TLC; '
                       'every replayed transition / judged record is one evaluation')
        ev = dict(property_id=self.pid, tier=self.tier, seed=self.seed, level=self.level,
                  coverage=cov, assumptions=self.assumptions, wall_s=round(wall, 2),
                  violations=len(self.violations), known_findings_observed=self.known_hits)
        os.makedirs(os.path.join(OUT, 'evidence'), exist_ok=True)
        with open(os.path.join(OUT, 'evidence', self.pid + '.json'), 'w') as fh:
            json.dump(ev, fh, indent=1, default=repr)
        for f in self.known:
            if self.known_hits.get(f['id']):
                print('KNOWN-FINDING: property=%s %s [%s, observed %d times]' % (
                    self.pid, f['what'], f['id'], self.known_hits[f['id']]))
        if self.violations:
            d = os.path.join(OUT, 'replays', self.pid)
            os.makedirs(d, exist_ok=True)
            shown = 0
            for i, (what, rep) in enumerate(self.violations):
                if rep is None:
                    continue
                path = os.path.join(d, 'v%03d.json' % i)
                with open(path, 'w') as fh:
                    json.dump(dict(property=self.pid, what=what, replay=rep), fh, indent=1, default=repr)
                if shown < 10:
                    print('VIOLATION property=%s replay=%s  # %s' % (self.pid, path, what[:300]))
                    shown += 1
            print('%s: %d violation(s) in %.1fs' % (self.pid, len(self.violations), wall))
            sys.exit(1)
        print('%s: ok (%s tier, %.1fs, states=%s transitions=%s conformance=%s)' % (
            self.pid, self.tier, wall, cov.get('states'), cov.get('transitions'),
            cov.get('traces_validated_against_impl')))
        sys.exit(0)


def _matches(f, what, replay):
    """A known finding matches a violation when every key of its `match`
    dict is found with the same value in the replay record (narrow matcher:
    the finding is identified by implementation, call site and condition)."""
    mt = f.get('match')
    if not mt or not isinstance(replay, dict):
        return False
    if isinstance(mt, list):
        return any(_matches(dict(f, match=m), what, replay) for m in mt)
    for k, v in mt.items():
        if k.endswith('__startswith'):
            rv = replay.get(k[:-12])
            if not isinstance(rv, str) or not any(rv.startswith(p) for p in v):
                return False
            continue
        if k.endswith('__ge'):
            rv = replay.get(k[:-4])
            if not isinstance(rv, (int, float)) or rv < v:
                return False
            continue
        rv = replay.get(k)
        if isinstance(v, list):
            if rv not in v:
                return False
        elif rv != v:
            return False
    return True


def tlc_verdict(ck, r, what, replay=None):
    """fold a TLC run on the specification itself into the check: an invariant
    violation is a violation; any other TLC failure is a machinery failure"""
    if r.ok:
        return True
    if r.violation:
        ck.violation('TLC: %s violated on the specification (%s): %s' % (r.violation, what, r.out[-1500:]),
                     dict(replay or {}, kind='tlc', what=what, invariant=r.violation))
        return False
    machinery_failure('TLC failed on %s: %s\n%s' % (what, r.error, r.out[-3000:]))


def machinery_failure(msg):
    sys.stderr.write('MACHINERY FAILURE: %s\n' % msg)
    sys.exit(2)
