"""Build the 22 C extension modules from /repo's *current working tree* into a
shadow package outside /repo, keyed by the hash of the sources and flags.

    python -m harness.build [plain|asan|hook]   -> prints the directory to put on PYTHONPATH

The shadow package symlinks the repository's .py files, so the Python
implementation exercised by the checks is also the working tree's.
"""
import hashlib, os, subprocess, sys, sysconfig, glob, shutil
from concurrent.futures import ThreadPoolExecutor

REPO = os.environ.get('VERIF_REPO', '/repo')
SRC = os.path.join(REPO, 'src', 'BTrees')
CACHE = os.environ.get('VERIF_CACHE', '/verif/.cache')
ASAN_RT = '/usr/lib/llvm-14/lib/clang/14.0.6/lib/linux/libclang_rt.asan-x86_64.so'

FLAVOURS = {
    # hooks on (guard BTREES_VERIF): allocation countdown compiled in
    'plain': dict(cc='gcc', flags=['-O1', '-g0', '-DBTREES_VERIF=1']),
    'nohook': dict(cc='gcc', flags=['-O1', '-g0']),
    'asan': dict(cc='clang', flags=['-O1', '-g', '-fsanitize=address,undefined',
                                    '-fno-omit-frame-pointer', '-DBTREES_VERIF=1',
                                    '-fno-sanitize-recover=undefined']),
}


def source_hash(flavour):
    h = hashlib.sha256()
    h.update(repr(FLAVOURS[flavour]).encode())
    h.update(sys.version.encode())
    files = sorted(glob.glob(os.path.join(SRC, '*.[ch]'))) + \
        sorted(glob.glob(os.path.join(REPO, 'include', 'persistent', 'persistent', '*.h')))
    for f in files:
        h.update(f.encode())
        with open(f, 'rb') as fh:
            h.update(fh.read())
    return h.hexdigest()[:16]


def build(flavour='plain', quiet=True):
    hsh = source_hash(flavour)
    root = os.path.join(CACHE, 'build', '%s-%s' % (flavour, hsh))
    pkg = os.path.join(root, 'BTrees')
    stamp = os.path.join(root, 'OK')
    if os.path.exists(stamp):
        _link_py(pkg)
        return root
    if os.path.exists(root):
        shutil.rmtree(root)
    os.makedirs(pkg)
    _link_py(pkg)
    inc = sysconfig.get_paths()['include']
    suffix = sysconfig.get_config_var('EXT_SUFFIX')
    mods = sorted(os.path.basename(f)[:-2] for f in glob.glob(os.path.join(SRC, '_*.c')))
    fl = FLAVOURS[flavour]

    def one(m):
        out = os.path.join(pkg, m + suffix)
        cmd = [fl['cc'], '-shared', '-fPIC', '-w'] + fl['flags'] + [
            '-I' + inc, '-I' + os.path.join(REPO, 'include', 'persistent'),
            '-I' + SRC, os.path.join(SRC, m + '.c'), '-o', out]
        r = subprocess.run(cmd, capture_output=True, text=True)
        return m, r.returncode, r.stderr
    with ThreadPoolExecutor(max_workers=16) as ex:
        res = list(ex.map(one, mods))
    bad = [(m, e) for m, rc, e in res if rc]
    if bad:
        for m, e in bad:
            sys.stderr.write('BUILD FAILED %s\n%s\n' % (m, e))
        raise SystemExit(2)
    open(stamp, 'w').write('\n'.join(mods))
    # keep only the three newest builds per flavour
    _prune(flavour, keep=root)
    return root


def _link_py(pkg):
    """(re)create symlinks for the working tree's python files"""
    want = {os.path.basename(f): f for f in glob.glob(os.path.join(SRC, '*.py'))}
    for name, f in want.items():
        dst = os.path.join(pkg, name)
        if os.path.islink(dst):
            if os.readlink(dst) == f:
                continue
            os.unlink(dst)
        os.symlink(f, dst)
    for name in os.listdir(pkg):
        if name.endswith('.py') and name not in want:
            os.unlink(os.path.join(pkg, name))


def _prune(flavour, keep):
    base = os.path.join(CACHE, 'build')
    ds = [os.path.join(base, d) for d in os.listdir(base) if d.startswith(flavour + '-')]
    ds.sort(key=os.path.getmtime, reverse=True)
    for d in ds[3:]:
        if d != keep:
            shutil.rmtree(d, ignore_errors=True)


def env_for(flavour='plain', pure=False, extra=None):
    """environment for a subprocess that must import the shadow build"""
    env = dict(os.environ)
    env['PYTHONHASHSEED'] = '0'
    env.pop('PURE_PYTHON', None)
    if pure:
        # the Python implementation straight from the working tree
        env['PURE_PYTHON'] = '1'
        env['PYTHONPATH'] = os.path.join(REPO, 'src') + ':/verif'
    else:
        root = build(flavour)
        env['PYTHONPATH'] = root + ':/verif'
        if flavour == 'asan':
            env['LD_PRELOAD'] = ASAN_RT
            env['ASAN_OPTIONS'] = 'detect_leaks=0:abort_on_error=1:allocator_may_return_null=1'
            env['UBSAN_OPTIONS'] = 'print_stacktrace=1:halt_on_error=1'
            # every Python object through malloc, so that the sanitizer sees the nodes and the stored keys and values too
            # (pymalloc's arenas would hide a use of a freed node)
            env['PYTHONMALLOC'] = 'malloc'
    if extra:
        env.update(extra)
    return env


if __name__ == '__main__':
    print(build(sys.argv[1] if len(sys.argv) > 1 else 'plain'))
