"""Drive history workers and have TLC validate what they recorded."""
import json
from . import jobs, judge


def _ints_only(x):
    if isinstance(x, bool):
        return False
    if isinstance(x, int):
        return True
    if isinstance(x, str):
        return True
    if isinstance(x, list):
        return all(_ints_only(y) for y in x)
    if isinstance(x, dict):
        return all(_ints_only(y) for y in x.values())
    return False


def wellformed_event(e):
    """ranks must be ints (an unknown key is rendered 'key?...' by the
    embedding): such an event is a violation by itself, and must not reach
    TLC where it would be a type error instead of a verdict"""
    def ranks(x):
        if isinstance(x, list):
            return all(ranks(y) for y in x)
        return isinstance(x, int) and not isinstance(x, bool)
    return ranks(e['keys']) and ranks(e['vals']) and ranks(e['ks']) and \
        all(isinstance(y, int) or i == 0 for i, y in enumerate(e['res'])) and \
        e['res'][0] in ('ok', 'v', 'kv', 'KeyError', 'TypeError')


def run_leaf_histories(ck, plan, flavour='plain'):
    """plan: history_worker jobs with jar=True (the container is one database record, the history is cut into
    transactions).  Validated by TraceLeaf (LeafStore: calls as the sorted map says, reader = writer after a
    commit, writer = committed contents after an abort)."""
    results = jobs.run_jobs('harness.workers.history_worker', plan, flavour=flavour, pure=True)
    traces, owners = [], []
    for job, res, err in results:
        ident = dict(fam=job['fam'], impl=job['impl'], kind=job['kind'], seed=job['seed'], sizes=[job.get('leaf'), job.get('internal')])
        if err:
            ck.violation('history worker died %s: %s' % (ident, err), dict(ident, kind='crash', err=err))
            continue
        for ti, tr in enumerate(res['traces']):
            def ranks(x):
                return all(ranks(y) for y in x) if isinstance(x, list) else (isinstance(x, int) and not isinstance(x, bool))
            bad = [i for i, e in enumerate(tr) if not (wellformed_event(e) and ranks(e['rkeys']) and ranks(e['rvals']))]
            if bad:
                ck.violation('recorded call outside the model vocabulary %s: %s' % (ident, tr[bad[0]]),
                             dict(ident, kind='malformed-event', line=bad[0], trace=tr[:bad[0] + 1]))
                continue
            traces.append(tr)
            owners.append((ident, ti))
    if traces:
        bad, summ = judge.judge('TraceLeaf', traces, chunk=4000)
        ck.add_tlc(dict(generated=summ['generated'], distinct=summ['distinct'], wall_s=round(summ['wall_s'], 1)),
                   'TraceLeaf validation of %d recorded transactional histories' % len(traces))
        ck.add_traces(len(traces))
        ck.bump('leafstore_events', sum(len(t) for t in traces))
        ck.bump('leafstore_commits', sum(1 for t in traces for e in t if e['op'] == 'commit'))
        ck.bump('leafstore_aborts', sum(1 for t in traces for e in t if e['op'] == 'abort'))
        for (ti, line) in bad:
            ident, tno = owners[ti]
            e = traces[ti][line]
            why = summ.get('details', {}).get((ti, line), {}).get('why')
            ck.violation('%s %s %s (one database record): %s at event %d %s(k=%s) -> %s, writer %s, reader %s; history %s' % (
                ident['fam'], ident['impl'], ident['kind'], why, line, e['op'], e['k'], e['res'], e['keys'], e['rkeys'],
                [[x['op'], x['k']] for x in traces[ti][max(0, line - 4):line + 1]]),
                dict(ident, kind='leafstore-rejected', why=why, line=line, op=e['op'], trace=traces[ti][:line + 1]))
    return results, traces


def run_histories(ck, plan, flavour='plain', structure_judge=True):
    """plan: list of history_worker jobs.  Traces are validated by TraceMap,
    recorded structures by JudgeSound."""
    results = jobs.run_jobs('harness.workers.history_worker', plan, flavour=flavour)
    traces, owners, structs, sowners = [], [], [], []
    for job, res, err in results:
        ident = dict(fam=job['fam'], impl=job['impl'], kind=job['kind'], seed=job['seed'],
                     sizes=[job.get('leaf'), job.get('internal')])
        if err:
            ck.violation('history worker died %s: %s' % (ident, err), dict(ident, kind='crash', err=err))
            continue
        for ti, tr in enumerate(res['traces']):
            bad = [i for i, e in enumerate(tr) if not wellformed_event(e)]
            if bad:
                ck.violation('recorded call outside the model vocabulary %s: %s' % (ident, tr[bad[0]]),
                             dict(ident, kind='malformed-event', line=bad[0], trace=tr[:bad[0] + 1]))
                continue
            traces.append(tr)
            owners.append((ident, ti))
        for s in res['structs']:
            if s.get('checkfail'):
                ck.violation('_check() failed during a history %s: %s' % (ident, s['checkfail']),
                             dict(ident, kind='checker', ctx=s['ctx'], tree=s['tree']))
                continue
            if not _ints_only(s['tree']) or not all(isinstance(x, int) for x in s['keys']):
                ck.violation('projection outside the model vocabulary %s' % (ident,), dict(ident, kind='malformed-proj', s=s))
                continue
            structs.append({k: s[k] for k in ('tree', 'maxleaf', 'maxint', 'keys')})
            sowners.append((ident, s['ctx']))
    if traces:
        bad, summ = judge.judge('TraceMap', traces, chunk=4000)
        ck.add_tlc(dict(generated=summ['generated'], distinct=summ['distinct'], wall_s=round(summ['wall_s'], 1)),
                   'TraceMap validation of %d recorded histories' % len(traces))
        ck.add_traces(len(traces))
        ck.bump('trace_events', sum(len(t) for t in traces))
        ck.sample(dict(kind='recorded history (first events)', owner=owners[0][0], events=traces[0][:4]))
        for (ti, line) in bad:
            ident, tno = owners[ti]
            e = traces[ti][line]
            ck.violation('%s %s %s: call %s(k=%s,v=%s) -> %s with contents %s is not a step of the sorted map' % (
                ident['fam'], ident['impl'], ident['kind'], e['op'], e['k'], e['v'], e['res'], e['keys']),
                dict(ident, kind='trace-rejected', line=line, op=e['op'], trace=traces[ti][:line + 1]))
    if structs and structure_judge:
        bad, summ = judge.judge('JudgeSound', structs)
        ck.add_tlc(dict(generated=summ['generated'], distinct=summ['distinct'], wall_s=round(summ['wall_s'], 1)),
                   'JudgeSound on %d recorded structures' % len(structs))
        ck.bump('structures_judged', len(structs))
        for b in bad:
            ident, ctx = sowners[b]
            ck.violation('%s %s %s: structure recorded after call %s is not sound' % (
                ident['fam'], ident['impl'], ident['kind'], ctx),
                dict(ident, kind='unsound-structure', ctx=ctx, tree=structs[b]['tree']))
    return results, traces, owners, structs, sowners
