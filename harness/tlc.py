"""Thin driver around TLC: run a spec+cfg, collect counters, PrintT payloads,
invariant verdicts.  Every number reported in evidence comes from here."""
import hashlib, json, os, re, shutil, subprocess, tempfile, time, uuid

SPECS = '/verif/specs'
CACHE = os.environ.get('VERIF_CACHE', '/verif/.cache')
JAR = '/opt/veriftools/tla/tla2tools.jar'


class TLCResult:
    def __init__(self):
        self.ok = False            # finished without error / violation
        self.violation = None      # name of violated invariant/property, if any
        self.error = None          # other error text
        self.generated = 0
        self.distinct = 0
        self.depth = 0
        self.wall = 0.0
        self.out = ''
        self.payloads = []         # decoded PrintT(<<tag, json>>) payloads
        self.coverage = {}

    def summary(self):
        return dict(ok=self.ok, violation=self.violation, generated=self.generated,
                    distinct=self.distinct, depth=self.depth, wall_s=round(self.wall, 2))


def _classpath():
    cp = [JAR]
    cm = '/opt/veriftools/tla/CommunityModules-deps.jar'
    if os.path.exists(cm):
        cp.append(cm)
    return ':'.join(cp)


def run(module, cfg_text, workers=16, simulate=None, depth=None, seed=None,
        timeout=3600, env_extra=None, coverage=False, tag=None, deadlock=False,
        dfs=False, extra_modules=(), keep_out=True, heap='8g', extra_args=()):
    """Run TLC on specs/<module>.tla with the given cfg text.

    A scratch directory receives a copy of every spec file (TLC writes its
    metadata next to them), and is removed afterwards."""
    work = os.path.join(CACHE, 'tlc', uuid.uuid4().hex)
    os.makedirs(work)
    try:
        for f in os.listdir(SPECS):
            if f.endswith('.tla'):
                shutil.copy(os.path.join(SPECS, f), work)
        for name, text in extra_modules:
            with open(os.path.join(work, name), 'w') as fh:
                fh.write(text)
        cfgp = os.path.join(work, module + '.cfg')
        with open(cfgp, 'w') as fh:
            fh.write(cfg_text)
        cmd = ['tlc', '-workers', str(workers), '-metadir', os.path.join(work, 'meta'),
               '-noGenerateSpecTE', '-config', cfgp]
        if not deadlock:
            cmd += ['-deadlock']
        if coverage:
            cmd += ['-coverage', '1']
        if simulate:
            cmd += ['-simulate', simulate]
        if depth:
            cmd += ['-depth', str(depth)]
        if seed is not None:
            cmd += ['-seed', str(seed)]
        cmd += list(extra_args)
        cmd += [module + '.tla']
        env = dict(os.environ)
        jopts = '-Xmx%s -XX:+UseParallelGC' % heap
        if dfs:
            jopts += ' -Dtlc2.tool.queue.IStateQueue=StateDeque'
        env['JAVA_TOOL_OPTIONS'] = jopts
        if env_extra:
            env.update(env_extra)
        t0 = time.time()
        try:
            p = subprocess.run(cmd, cwd=work, env=env, capture_output=True, text=True,
                               timeout=timeout)
            out = p.stdout + p.stderr
            rc = p.returncode
        except subprocess.TimeoutExpired as e:
            out = (e.stdout or b'').decode('utf8', 'replace') if isinstance(e.stdout, bytes) else (e.stdout or '')
            out += '\nTLC TIMEOUT'
            rc = 124
            subprocess.run(['pkill', '-f', work], capture_output=True)
        r = TLCResult()
        r.wall = time.time() - t0
        r.out = out if keep_out else out[-20000:]
        r.rc = rc
        _parse(r, out, tag)
        return r
    finally:
        shutil.rmtree(work, ignore_errors=True)


_PAY = re.compile(r'^<<"(\w+)", "(.*)">>$')


def _parse(r, out, tag):
    for line in out.splitlines():
        if line.startswith('<<"'):
            m = _PAY.match(line.rstrip())
            if m and (tag is None or m.group(1) == tag):
                try:
                    r.payloads.append(json.loads(json.loads('"' + m.group(2) + '"')))
                except Exception:
                    r.error = 'unparsable payload: ' + line[:200]
    m = re.findall(r'(\d+) states generated, (\d+) distinct states found', out)
    if m:
        r.generated, r.distinct = int(m[-1][0]), int(m[-1][1])
    m = re.search(r'The depth of the complete state graph search is (\d+)', out)
    if m:
        r.depth = int(m.group(1))
    m = re.search(r'Invariant (\S+) is violated', out)
    if m:
        r.violation = m.group(1)
    m = re.search(r'Action property (\S+) is violated', out)
    if m:
        r.violation = m.group(1)
    if 'Temporal properties were violated' in out:
        r.violation = r.violation or 'temporal'
    if re.search(r'Error: The postcondition', out) or 'The postcondition' in out and 'violated' in out:
        r.violation = r.violation or 'postcondition'
    if 'Assumption' in out and 'is false' in out:
        r.violation = r.violation or 'assumption'
    if r.violation is None and ('Error:' in out or 'TLC TIMEOUT' in out or r.rc not in (0,)):
        # simulation mode exits via timeout/num; treat explicit Error lines only
        em = re.search(r'Error: (.*)', out)
        if em or r.rc not in (0,):
            r.error = (em.group(1) if em else 'exit code %s' % r.rc)
    r.ok = r.violation is None and r.error is None
    for m in re.finditer(r'<(\w+) line \d+, col \d+ to line \d+, col \d+ of module (\w+)>: (\d+):(\d+)', out):
        r.coverage[m.group(1)] = (int(m.group(3)), int(m.group(4)))


def spec_hash(*parts):
    h = hashlib.sha256()
    for f in sorted(os.listdir(SPECS)):
        if f.endswith('.tla'):
            h.update(open(os.path.join(SPECS, f), 'rb').read())
    for p in parts:
        h.update(repr(p).encode())
    return h.hexdigest()[:16]


def cached_payloads(module, cfg_text, tag, **kw):
    """Run (or reuse) a TLC run whose PrintT payloads are wanted; cache keyed by
    the hash of all specs + cfg.  Returns (payloads, summary dict)."""
    key = spec_hash(module, cfg_text, tag, kw.get('simulate'), kw.get('seed'), kw.get('depth'))
    d = os.path.join(CACHE, 'dumps')
    os.makedirs(d, exist_ok=True)
    fn = os.path.join(d, '%s-%s.json' % (module, key))
    if os.path.exists(fn):
        with open(fn) as fh:
            obj = json.load(fh)
        obj['summary']['cached'] = True
        return obj['payloads'], obj['summary']
    r = run(module, cfg_text, tag=tag, **kw)
    if not r.ok:
        raise RuntimeError('TLC failed for %s: violation=%s error=%s\n%s' % (
            module, r.violation, r.error, r.out[-3000:]))
    summ = r.summary()
    with open(fn + '.tmp', 'w') as fh:
        json.dump(dict(payloads=r.payloads, summary=summ), fh)
    os.replace(fn + '.tmp', fn)
    return r.payloads, summ


def simulate_behaviours(module, cfg_text, num, depth, seed=1, workers=8, timeout=1800, obsvar='obs'):
    """`tlc -simulate file=...`: one file per behaviour; the specification carries an observation variable
    holding a JSON string per step.  Returns (list of behaviours = lists of decoded observations, summary);
    cached by spec + cfg hash."""
    key = spec_hash(module, cfg_text, 'SIMB', num, seed, depth)
    d = os.path.join(CACHE, 'dumps')
    os.makedirs(d, exist_ok=True)
    fn = os.path.join(d, '%s-%s.json' % (module, key))
    if os.path.exists(fn):
        with open(fn) as fh:
            obj = json.load(fh)
        obj['summary']['cached'] = True
        return fn, obj['payloads'], obj['summary']
    out = os.path.join(CACHE, 'sim', uuid.uuid4().hex)
    os.makedirs(out)
    try:
        per = max(1, num // workers)
        r = run(module, cfg_text, workers=workers, simulate='file=%s/tr,num=%d' % (out, per), depth=depth, seed=seed, timeout=timeout)
        if r.error or r.violation:
            raise RuntimeError('TLC simulation failed for %s: %s %s\n%s' % (module, r.violation, r.error, r.out[-3000:]))
        pat = re.compile(r'^/\\ %s = "(.*)"$' % obsvar)
        behaviours = []
        for name in sorted(os.listdir(out)):
            steps = []
            with open(os.path.join(out, name)) as fh:
                for line in fh:
                    m = pat.match(line.rstrip())
                    if m and m.group(1) != 'init':
                        steps.append(json.loads(json.loads('"' + m.group(1) + '"')))
            if steps:
                behaviours.append(steps)
        summ = r.summary()
        m = re.search(r'The number of states generated: (\d+)', r.out)
        if m:
            summ['generated'] = int(m.group(1))
            summ['distinct'] = sum(len(b) for b in behaviours)
        summ['behaviours'] = len(behaviours)
        with open(fn + '.tmp', 'w') as fh:
            json.dump(dict(payloads=behaviours, summary=summ), fh)
        os.replace(fn + '.tmp', fn)
        return fn, behaviours, summ
    finally:
        shutil.rmtree(out, ignore_errors=True)
