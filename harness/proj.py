"""proj(): the one place where real containers are turned into model values.
Uses diagnostic API only (__getstate__, _firstbucket, _next).  It verifies
nothing; comparing its output with the model state does."""


def is_tree(x):
    return hasattr(x, '_firstbucket')


def _leaf_items(b, is_set):
    st = b.__getstate__()
    if st is None:
        return [], []
    flat = st[0]
    if is_set:
        return list(flat), None
    return list(flat[0::2]), list(flat[1::2])


def _collect(node, out):
    st = node.__getstate__()
    if st is None:
        return
    if len(st) == 1:
        out.append(node._firstbucket)
        return
    for i, x in enumerate(st[0]):
        if i % 2 == 0:
            if is_tree(x):
                _collect(x, out)
            else:
                out.append(x)


def collect_leaves(t):
    """leaves in descent order (objects).  (A module-level helper, not a nested closure: a closure
    referring to itself is a reference cycle that would keep the leaves alive until the next
    garbage collection -- the reference ledgers of C14/C16 read reference counts right away.)"""
    out = []
    _collect(t, out)
    return out


def proj(t, emb, is_set):
    """model-shaped projection of a real BTree/TreeSet"""
    leaves = collect_leaves(t)
    ids = {id(l): i + 1 for i, l in enumerate(leaves)}

    def idx(b):
        if b is None:
            return 0
        return ids.get(id(b), 999)

    def leaf(b):
        ks, vs = _leaf_items(b, is_set)
        return {'t': 'L', 'ks': [emb.rk(k) for k in ks],
                'vs': [1] * len(ks) if is_set else [emb.rv(v) for v in vs],
                'nx': idx(b._next)}

    def rec(node):
        st = node.__getstate__()
        if st is None:
            return {'t': 'I', 'kids': [], 'seps': [], 'fb': idx(node._firstbucket)}
        if len(st) == 1:
            b = node._firstbucket
            return {'t': 'I', 'kids': [leaf(b)], 'seps': [], 'fb': idx(b)}
        kids, seps = [], []
        for i, x in enumerate(st[0]):
            if i % 2:
                seps.append(emb.rk(x))
            elif is_tree(x):
                kids.append(rec(x))
            else:
                kids.append(leaf(x))
        return {'t': 'I', 'kids': kids, 'seps': seps, 'fb': idx(node._firstbucket)}
    return rec(t)


def proj_leaf(b, emb, is_set):
    ks, vs = _leaf_items(b, is_set)
    return {'t': 'L', 'ks': [emb.rk(k) for k in ks],
            'vs': [1] * len(ks) if is_set else [emb.rv(v) for v in vs], 'nx': 0}


def flatten(p):
    """ordered (keys, values) of a projection, by descent"""
    if p['t'] == 'L':
        return list(p['ks']), list(p['vs'])
    ks, vs = [], []
    for c in p['kids']:
        a, b = flatten(c)
        ks += a
        vs += b
    return ks, vs


def nleaves(p):
    return 1 if p['t'] == 'L' else sum(nleaves(c) for c in p['kids'])


def depth(p):
    return 0 if p['t'] == 'L' else (1 + (depth(p['kids'][0]) if p['kids'] else 0))
