"""Single corruptions of a tree value with leaf identities (the Python mirror of
Check!Mut; the judge evaluates whatever tree it is given, so this generator
only decides *which* trees are tried on the real containers)."""
import copy

FOREIGN = 999
EMPTY_INNER = {'t': 'I', 'kids': [], 'seps': [], 'fb': 0}


def idtree(p, shift=0):
    """projection (harness/proj.py, leaves referred to by descent index) ->
    tree value with leaf identities; keys shifted by `shift`"""
    n = [0]

    def rec(q):
        if q['t'] == 'L':
            n[0] += 1
            return {'t': 'L', 'id': n[0], 'ks': [k + shift for k in q['ks']], 'vs': list(q['vs']), 'nx': q['nx']}
        kids = [rec(c) for c in q['kids']]
        return {'t': 'I', 'kids': kids, 'seps': [s + shift for s in q['seps']], 'fb': q['fb']}
    return rec(p)


def leaves(p):
    if p['t'] == 'L':
        return [p]
    out = []
    for c in p['kids']:
        out += leaves(c)
    return out


def mutants(p, U, P):
    """yield (label, tree) for every single corruption"""
    def rec(q, path):
        # yields (label, replacement for q)
        if q['t'] == 'L':
            for j, k in enumerate(q['ks']):
                for u in U:
                    if u != k:
                        yield ('key', dict(q, ks=q['ks'][:j] + [u] + q['ks'][j + 1:]))
            for j in range(len(q['ks']) - 1):
                ks = list(q['ks'])
                ks[j], ks[j + 1] = ks[j + 1], ks[j]
                yield ('swap', dict(q, ks=ks))
            yield ('emptyleaf', dict(q, ks=[], vs=[]))
            for x in [0] + list(P):
                if x != q['nx']:
                    yield ('next', dict(q, nx=x))
            return
        for j, s in enumerate(q['seps']):
            for u in U:
                if u != s:
                    yield ('sep', dict(q, seps=q['seps'][:j] + [u] + q['seps'][j + 1:]))
        for x in [0] + list(P):
            if x != q['fb']:
                yield ('first', dict(q, fb=x))
        for j, c in enumerate(q['kids']):
            for lab, r in rec(c, path + [j]):
                yield (lab, dict(q, kids=q['kids'][:j] + [r] + q['kids'][j + 1:]))
            if c['t'] == 'L':
                w = {'t': 'I', 'kids': [c], 'seps': [], 'fb': c['id']}
                yield ('wrap', dict(q, kids=q['kids'][:j] + [w] + q['kids'][j + 1:]))
            else:
                if len(c['kids']) == 1 and c['kids'][0]['t'] == 'L':
                    yield ('unwrap', dict(q, kids=q['kids'][:j] + [c['kids'][0]] + q['kids'][j + 1:]))
                yield ('emptychild', dict(q, kids=q['kids'][:j] + [dict(EMPTY_INNER)] + q['kids'][j + 1:]))
        if q['kids'] and q['kids'][0]['t'] == 'I':
            for u in U:
                yield ('appendempty', dict(q, kids=q['kids'] + [dict(EMPTY_INNER)], seps=q['seps'] + [u]))
    for lab, r in rec(p, []):
        yield lab, r
