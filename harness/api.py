"""Model action -> real public call(s).  Each model action has several API
spellings ("variants"); results are normalised to the model's result values:
['ok'] | ['v', rank] | ['kv', krank, vrank] | ['KeyError'] | ['exc', ClassName]."""

_SENT = object()
N_VARIANTS = 4


class _Plain:
    """default comparison: unusable as an object key"""


def bad_key(fam):
    c = fam[0]
    if c == 'O':
        return _Plain()
    if c == 'f':
        return b'abc'          # wrong length
    return 'not-an-int'


def bad_val(fam):
    c = fam[1]
    if c == 'O':
        return _SENT            # every object is a usable value: nothing to try
    if c == 's':
        return b'1234567'       # wrong length
    if c == 'F':
        return 'not-a-float'
    return 'not-an-int'


def _bad(t, emb, a, variant, is_set):
    """a write with an unusable key or value; every spelling must raise TypeError"""
    fam = emb.fam
    if a['op'] == 'badkey':
        k = bad_key(fam)
        v = 1 if is_set else emb.val(1)
        # (deleting an unusable key is left to C09: the C object-key families answer
        #  KeyError or TypeError depending on the stored keys -- finding D28)
        ops = ([lambda: t.add(k), lambda: t.update([k]), lambda: t.insert(k)] if is_set else
               [lambda: t.__setitem__(k, v), lambda: t.update([(k, v)]), lambda: t.setdefault(k, v)]
               + ([lambda: t.insert(k, v)] if hasattr(t, 'insert') else []))
    else:
        k = emb.key(a['k'])
        v = bad_val(fam)
        if v is _SENT or is_set:
            return ['TypeError']    # not applicable: nothing unusable to offer
        ops = [lambda: t.__setitem__(k, v), lambda: t.update([(k, v)]), lambda: t.update({k: v})]
        if k not in t:
            # (with k present C returns the stored value unvalidated: recorded under C09)
            ops.append(lambda: t.setdefault(k, v))
            if hasattr(t, 'insert'):
                ops.append(lambda: t.insert(k, v))
    try:
        ops[variant % len(ops)]()
    except TypeError:
        return ['TypeError']
    except Exception as e:
        return ['exc', type(e).__name__]
    return ['ok']


def loosen(t, emb, a):
    """BTreeImpl!Loosen: separator a['v'] (1-based child index) of the node at path a['p'] becomes key a['k'], through the
    node's own __setstate__ (what a tree loaded from an older database can look like)"""
    if not hasattr(t, '_firstbucket'):
        return ['ok']               # (a stand-alone leaf has no separators)
    node = t
    for idx in a['p']:
        node = node.__getstate__()[0][0::2][idx - 1]
    st = node.__getstate__()
    data = list(st[0])
    data[2 * a['v'] - 3] = emb.key(a['k'])
    node.__setstate__((tuple(data),) + tuple(st[1:]))
    return ['ok']


def apply_map(t, emb, a, variant=0):
    op = a['op']
    if op == 'loosen':
        return loosen(t, emb, a)
    if op.startswith('bad'):
        return _bad(t, emb, a, variant, False)
    k = emb.key(a['k']) if a['k'] else None
    v = emb.val(a['v']) if a['v'] else None
    try:
        if op == 'setitem':
            w = variant % 4
            if w == 0:
                t[k] = v
            elif w == 1:
                t.update({k: v})
            elif w == 2:
                t.update([(k, v)])
            else:
                t.__setitem__(k, v)
            return ['ok']
        if op == 'insert':
            if not hasattr(t, 'insert'):    # Buckets have no insert(): same effect via setdefault
                had = k in t
                t.setdefault(k, v)
                return ['v', 0 if had else 1]
            return ['v', int(t.insert(k, v))]
        if op == 'setdefault':
            return ['v', emb.rv(t.setdefault(k, v))]
        if op == 'delitem':
            if variant % 2:
                t.__delitem__(k)
            else:
                del t[k]
            return ['ok']
        if op == 'pop':
            if variant % 2:
                r = t.pop(k, _SENT)
                if r is _SENT:
                    return ['KeyError']
                return ['v', emb.rv(r)]
            return ['v', emb.rv(t.pop(k))]
        if op == 'popitem':
            kk, vv = t.popitem()
            return ['kv', emb.rk(kk), emb.rv(vv)]
        if op == 'clear':
            t.clear()
            return ['ok']
    except KeyError:
        return ['KeyError']
    except Exception as e:          # anything else is reported, never swallowed
        return ['exc', type(e).__name__]
    raise ValueError(op)


def apply_set(t, emb, a, variant=0):
    """the same model actions on a TreeSet/Set (model values are all 1)"""
    op = a['op']
    if op == 'loosen':
        return loosen(t, emb, a)
    if op.startswith('bad'):
        return _bad(t, emb, a, variant, True)
    k = emb.key(a['k']) if a['k'] else None
    try:
        if op == 'setitem':
            w = variant % 4
            if w == 0:
                t.add(k)
            elif w == 1:
                t.update([k])
            elif w == 2:
                t |= (k,)
            else:
                t.insert(k)
            return ['ok']
        if op == 'insert':
            return ['v', int(t.add(k) if variant % 2 else t.insert(k))]
        if op == 'setdefault':
            t.add(k)
            return ['v', 1]
        if op == 'delitem':
            w = variant % 3
            if w == 0:
                t.remove(k)
            elif w == 1:
                had = k in t
                t.discard(k)
                if not had:
                    return ['KeyError']
            else:
                had = k in t
                t -= (k,)
                if not had:
                    return ['KeyError']
            return ['ok']
        if op == 'pop':
            t.remove(k)
            return ['v', 1]
        if op == 'popitem':
            kk = t.pop()
            return ['kv', emb.rk(kk), 1]
        if op == 'clear':
            t.clear()
            return ['ok']
    except KeyError:
        return ['KeyError']
    except Exception as e:
        return ['exc', type(e).__name__]
    raise ValueError(op)


def observe_map(t, emb, nkeys):
    """all read-only calls on every model key; rendered for comparison with
    the model's contents"""
    out = {}
    has, got = [], []
    for r in range(1, nkeys + 1):
        k = emb.key(r)
        a = k in t
        b = bool(t.has_key(k))
        g = t.get(k, _SENT)
        try:
            i = t[k]
        except KeyError:
            i = _SENT
        if not (a == b == (g is not _SENT) == (i is not _SENT)):
            has.append('incoherent@%d' % r)
        else:
            has.append(1 if a else 0)
        got.append(0 if g is _SENT else emb.rv(g))
        if g is not _SENT and i is not _SENT and emb.rv(i) != emb.rv(g):
            got[-1] = 'get/[] differ@%d' % r
    out['has'] = has
    out['get'] = got
    out['len'] = len(t)
    out['bool'] = bool(t)
    out['keys'] = [emb.rk(x) for x in t]
    out['keys2'] = [emb.rk(x) for x in t.keys()]
    out['items'] = [[emb.rk(x), emb.rv(y)] for x, y in t.items()]
    out['values'] = [emb.rv(y) for y in t.values()]
    return out


def observe_set(t, emb, nkeys):
    out = {}
    has = []
    for r in range(1, nkeys + 1):
        k = emb.key(r)
        a = k in t
        b = bool(t.has_key(k))
        has.append((1 if a else 0) if a == b else 'incoherent@%d' % r)
    out['has'] = has
    out['len'] = len(t)
    out['bool'] = bool(t)
    out['keys'] = [emb.rk(x) for x in t]
    out['keys2'] = [emb.rk(x) for x in t.keys()]
    return out
