"""Run worker subprocesses (one per job) in parallel against a shadow build."""
import json, os, subprocess, sys, tempfile, uuid, shutil
from concurrent.futures import ThreadPoolExecutor
from . import build

CACHE = os.environ.get('VERIF_CACHE', '/verif/.cache')


def _default_timeout():
    """a worker that does not come back is a finding (a loop in the code under test), not something to wait for:
    quick-tier jobs take a minute or two, so they get 10 minutes; thorough-tier jobs 4 hours"""
    if os.environ.get('VERIF_JOB_TIMEOUT'):
        return int(os.environ['VERIF_JOB_TIMEOUT'])
    tier = os.environ.get('VERIF_TIER', 'quick')
    if '--tier' in sys.argv:
        tier = sys.argv[sys.argv.index('--tier') + 1]
    return 600 if tier == 'quick' else 4 * 3600


def run_jobs(module, jobs, flavour='plain', max_workers=16, timeout=None, pure=False):
    """jobs: list of dicts (JSON-able).  Returns list of (job, result|None, err)."""
    if timeout is None:
        timeout = _default_timeout()
    work = os.path.join(CACHE, 'jobs', uuid.uuid4().hex)
    os.makedirs(work)
    env_c = build.env_for(flavour)
    env_p = build.env_for(flavour, pure=True) if pure else None

    def one(ij):
        i, job = ij
        jf = os.path.join(work, 'j%d.json' % i)
        rf = os.path.join(work, 'r%d.json' % i)
        with open(jf, 'w') as fh:
            json.dump(job, fh)
        env = env_p if (pure and job.get('pure')) else env_c
        try:
            p = subprocess.run([sys.executable, '-m', module, jf, rf], env=env, cwd='/verif',
                               capture_output=True, text=True, timeout=timeout)
        except subprocess.TimeoutExpired:
            return job, None, 'timeout: the worker did not come back within %d s (the code under test does not terminate?)' % timeout
        if p.returncode != 0 or not os.path.exists(rf):
            return job, None, 'exit %s: %s' % (p.returncode, (p.stderr or p.stdout)[-2000:])
        with open(rf) as fh:
            return job, json.load(fh), None
    try:
        with ThreadPoolExecutor(max_workers=max_workers) as ex:
            return list(ex.map(one, list(enumerate(jobs))))
    finally:
        shutil.rmtree(work, ignore_errors=True)
