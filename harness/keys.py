"""Instrumented object keys: every rich comparison calls HOOK (if set) before
answering -- the observation point for C05 (pins, evictions inside a call),
C14 (failing the n-th comparison) and C16 (reference ledger)."""

HOOK = [None]


class K:
    __slots__ = ('v',)

    def __init__(self, v):
        self.v = v

    def __lt__(self, o):
        if HOOK[0] is not None:
            HOOK[0]('lt', self, o)
        if not isinstance(o, K):
            return NotImplemented
        return self.v < o.v

    def __eq__(self, o):
        if HOOK[0] is not None:
            HOOK[0]('eq', self, o)
        return isinstance(o, K) and self.v == o.v

    def __gt__(self, o):
        if HOOK[0] is not None:
            HOOK[0]('gt', self, o)
        if not isinstance(o, K):
            return NotImplemented
        return self.v > o.v

    def __le__(self, o):
        if HOOK[0] is not None:
            HOOK[0]('le', self, o)
        if not isinstance(o, K):
            return NotImplemented
        return self.v <= o.v

    def __ge__(self, o):
        if HOOK[0] is not None:
            HOOK[0]('ge', self, o)
        if not isinstance(o, K):
            return NotImplemented
        return self.v >= o.v

    def __ne__(self, o):
        if HOOK[0] is not None:
            HOOK[0]('ne', self, o)
        return not (isinstance(o, K) and self.v == o.v)

    def __hash__(self):
        return hash(self.v)

    def __reduce__(self):
        return (K, (self.v,))

    def __repr__(self):
        return 'K(%r)' % (self.v,)


class KEmb:
    """embedding of model key ranks into K objects (values: small ints)"""
    fam = 'OO'

    def __init__(self, nvals=3):
        self._vals = [7, 9, 11][:nvals] + [13] * 3

    def key(self, r):
        return K(r)

    def val(self, r):
        return self._vals[r - 1]

    def rk(self, k):
        return k.v if isinstance(k, K) else 'key?%r' % (k,)

    def rv(self, v):
        try:
            return self._vals.index(v) + 1
        except ValueError:
            return 'val?%r' % (v,)
