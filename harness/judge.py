"""code -> spec: batches of records produced by the real code are judged by
TLC against operators of the specification (one initial state per record,
the verdict is an invariant)."""
import json, os, uuid
from . import tlc, common

MAXBYTES = 16 << 20

CFG = """SPECIFICATION JSpec
INVARIANT JOK
"""


def judge(module, records, constants=None, chunk=20000):
    """returns (list of failing record indices (0-based), summary dict)"""
    bad = []
    total = dict(generated=0, distinct=0, wall_s=0.0, runs=0)
    d = os.path.join(tlc.CACHE, 'judge')
    os.makedirs(d, exist_ok=True)
    cfg = CFG
    if constants:
        cfg += 'CONSTANTS\n' + ''.join('  %s = %s\n' % kv for kv in constants.items())
    # a batch is at most `chunk` records and at most MAXBYTES of JSON (every TLC worker parses the file itself;
    # batches of long traces beyond ~100 MB made the parser fail for want of memory)
    texts = [json.dumps(r) for r in records]
    cuts, size, start = [], 0, 0
    for i, t in enumerate(texts):
        if i > start and (i - start >= chunk or size + len(t) > MAXBYTES):
            cuts.append((start, i))
            start, size = i, 0
        size += len(t)
    if start < len(texts):
        cuts.append((start, len(texts)))
    for off, end in cuts:
        part = records[off:end]
        fn = os.path.join(d, uuid.uuid4().hex + '.json')
        with open(fn, 'w') as fh:
            fh.write('[' + ','.join(texts[off:end]) + ']')
        try:
            r = tlc.run(module, cfg, workers=8, env_extra={'RECS': fn}, tag='BAD', timeout=3000,
                        extra_args=['-continue'])
        finally:
            os.replace(fn, os.path.join(d, 'last-%s.json' % module))     # kept for diagnosis / bin/selftest (overwritten each time)
            with open(os.path.join(d, 'lastcfg-%s.json' % module), 'w') as fh:
                json.dump(constants, fh)
        if (r.error and not r.violation) or r.generated < len(part):
            import shutil
            shutil.copy(os.path.join(d, 'last-%s.json' % module), os.path.join(d, 'failed-%s.json' % module))
            with open(os.path.join(d, 'failed-%s.cfg' % module), 'w') as fh:
                fh.write(cfg)
        if r.error and not r.violation:
            common.machinery_failure('judge %s: %s\n%s' % (module, r.error, r.out[-3000:]))
        if r.generated < len(part):
            common.machinery_failure('judge %s: only %d of %d records evaluated\n%s' % (
                module, r.generated, len(part), r.out[-3000:]))
        for p in r.payloads:
            if isinstance(p, dict) and 'i' in p:    # index plus what the specification expected
                bad.append(off + int(p['i']) - 1)
                total.setdefault('details', {})[off + int(p['i']) - 1] = p
            elif isinstance(p, dict):       # trace validators: [tid, line]
                bad.append((off + int(p['tid']) - 1, int(p['line']) - 1))
                total.setdefault('details', {})[(off + int(p['tid']) - 1, int(p['line']) - 1)] = p
            else:
                bad.append(off + int(p) - 1)
        total['generated'] += r.generated
        total['distinct'] += r.distinct
        total['wall_s'] += r.wall
        total['runs'] += 1
    return sorted(set(bad), key=lambda x: x if isinstance(x, tuple) else (x, -1)), total
