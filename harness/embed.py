"""Order-preserving embeddings of model keys (1..N) and model values (1..V)
into each family's domain.  Two embeddings per family: 'ext' touches the
integer extremes / None; 'mid' leaves room below and above for bounds that
fall outside everything."""

KEYCODES = {
    'I': dict(ext=[-2**31, -2**31 + 1, -2**30, -65536, -2, -1, 0, 1, 2, 255, 256, 65535, 65536, 2**30, 2**31 - 2, 2**31 - 1],
              mid=[10 * i for i in range(1, 17)], below=-5, above=1000),
    'L': dict(ext=[-2**63, -2**63 + 1, -2**62, -2**32, -2**31 - 1, -1, 0, 1, 2, 2**31, 2**32 - 1, 2**32, 2**33, 2**62,
                   2**63 - 2, 2**63 - 1],
              mid=[10 * i for i in range(1, 17)], below=-5, above=2**40),
    'U': dict(ext=[0, 1, 2, 255, 256, 65535, 65536, 2**30, 2**31 - 2, 2**31 - 1, 2**31, 2**31 + 1, 2**31 + 2**30,
                   2**32 - 3, 2**32 - 2, 2**32 - 1],
              mid=[10 * i for i in range(1, 17)], below=0, above=2**32 - 1),
    'Q': dict(ext=[0, 1, 2, 2**31, 2**32 - 1, 2**32, 2**33, 2**62, 2**63 - 2, 2**63 - 1, 2**63, 2**63 + 1,
                   2**63 + 2**62, 2**64 - 3, 2**64 - 2, 2**64 - 1],
              mid=[10 * i for i in range(1, 17)], below=0, above=2**64 - 1),
    'O': dict(ext=[None, -2**70, -2**63 - 1, -2**31, -1, 0, 1, 2, 3, 255, 2**31, 2**32, 2**63, 2**64, 2**70, 2**71],
              mid=['b', 'd', 'f', 'h', 'j', 'l', 'n', 'p', 'q', 'r', 's', 't', 'u', 'v', 'w', 'x'],
              # orderable but unhashable keys (lists): legal object keys; nothing may try to hash them
              lst=[[i] for i in range(1, 17)],
              below='a', above='z'),
    'f': dict(ext=[b'\x00\x00', b'\x00\x01', b'\x00\xff', b'\x01\x00', b'\x01\x01', b'0\x00', b'a\x00', b'ab',
                   b'ac', b'b\x00', b'\x7f\xff', b'\x80\x00', b'\x80\x01', b'\xff\x00', b'\xff\xfe', b'\xff\xff'],
              mid=[b'b0', b'd0', b'f0', b'h0', b'j0', b'l0', b'n0', b'p0', b'q0', b'r0', b's0', b't0', b'u0', b'v0',
                   b'w0', b'x0'],
              below=b'\x00\x00', above=b'\xff\xff'),
}
VALCODES = {
    'I': dict(ext=[-2**31, 2**31 - 1, 0], mid=[7, 9, 11]),
    # (mid: values that differ only above bit 31 - a comparison or copy narrowed to 32 bits would not tell them apart)
    'L': dict(ext=[-2**63, 2**63 - 1, 0], mid=[7, 7 + 2**32, 7 + 2**33]),
    'U': dict(ext=[0, 2**32 - 1, 5], mid=[7, 9, 11]),
    'Q': dict(ext=[0, 2**64 - 1, 5], mid=[7, 7 + 2**32, 7 + 2**63]),
    'F': dict(ext=[-0.5, 1.5, 2.0 ** 127], mid=[0.5, 1.5, 2.25]),
    # (po: partially ordered values - frozensets: unequal, and neither smaller than the other, without any comparison raising)
    'O': dict(ext=[None, ('y', 1), 'x'], mid=['x', 'y', 'z'], po=[frozenset({1}), frozenset({2}), frozenset({3})]),
    # (mid: strings that share their first bytes, a NUL among them: a comparison of a prefix, or one that stops at a
    #  NUL, would not tell them apart)
    's': dict(ext=[b'\x00' * 6, b'\xff' * 6, b'abcdef'], mid=[b'a\x00aaaa', b'a\x00aaab', b'a\x00bbbb']),
}

FAMILIES = ['OO', 'OI', 'OL', 'OU', 'OQ', 'IO', 'II', 'IF', 'IU', 'LO', 'LL', 'LF', 'LQ',
            'UO', 'UU', 'UF', 'UI', 'QO', 'QQ', 'QF', 'QL', 'fs']
QUICK_FAMILIES = ['OO', 'II', 'LQ', 'UF', 'fs']
INT_KEY_FAMILIES = [f for f in FAMILIES if f[0] in 'ILUQ']
NUMERIC_VALUE_FAMILIES = [f for f in FAMILIES if f != 'fs' and f[1] in 'ILUQF']


def module_of(fam):
    import importlib
    return importlib.import_module('BTrees.%sBTree' % fam)


def classes(fam, impl):
    """(BTree, Bucket, TreeSet, Set) classes of a family; impl 'c' or 'py'."""
    mod = module_of(fam)
    suf = 'Py' if impl == 'py' else ''
    names = ['BTree', 'Bucket', 'TreeSet', 'Set']
    return tuple(getattr(mod, fam + n + suf) for n in names)


class Embedding:
    def __init__(self, fam, which='mid'):
        self.fam, self.which = fam, which
        kc = KEYCODES[fam[0]]
        vc = VALCODES[fam[1]]
        self.keys = list(kc.get(which, kc['mid']))
        self.vals = list(vc.get(which, vc['mid']))
        self.below, self.above = kc['below'], kc['above']
        self.krank = {self._h(k): i + 1 for i, k in enumerate(self.keys)}
        self.vrank = {self._h(v): i + 1 for i, v in enumerate(self.vals)}

    @staticmethod
    def _h(x):
        # 1, 1.0 and True hash alike; keep type out of it on purpose (the
        # containers normalise ints/floats) but None/bytes/str stay distinct
        return ('list',) + tuple(x) if isinstance(x, list) else x

    def key(self, r):
        return self.keys[r - 1]

    def val(self, r):
        return self.vals[r - 1]

    def rk(self, k):
        """rank of a real key; unknown keys are rendered as a string so that a
        comparison with the model fails loudly instead of crashing"""
        try:
            return self.krank[self._h(k)]
        except (KeyError, TypeError):
            return 'key?%r' % (k,)

    def rv(self, v):
        try:
            return self.vrank[v]
        except (KeyError, TypeError):
            return 'val?%r' % (v,)


def set_sizes(classes_, leaf, internal):
    """node sizes go on the classes themselves (check.check() only knows exact
    types); returns the old settings so callers can restore them"""
    old = []
    for c in classes_:
        old.append((c, c.__dict__.get('max_leaf_size', None), c.__dict__.get('max_internal_size', None),
                    c.max_leaf_size, c.max_internal_size))
        c.max_leaf_size = leaf
        c.max_internal_size = internal
    return old


def restore_sizes(old):
    for c, _, _, l, i in old:
        c.max_leaf_size = l
        c.max_internal_size = i
