"""The transition graph dumped by TLC (payloads of BTreeImpl!Dump) and
shortest call paths to every model state."""
import json
from collections import deque

INIT = {'t': 'I', 'kids': [], 'seps': [], 'fb': 0}


def key(p):
    return json.dumps(p, sort_keys=True, separators=(',', ':'))


class Graph:
    def __init__(self, payloads, init=INIT):
        self.trs = payloads
        self.adj = {}
        for i, tr in enumerate(payloads):
            self.adj.setdefault(key(tr['from']), []).append(i)
        self.path = {key(init): []}
        self.state = {key(init): init}
        dq = deque([key(init)])
        while dq:
            u = dq.popleft()
            for i in self.adj.get(u, []):
                tr = self.trs[i]
                v = key(tr['to'])
                if v not in self.path:
                    self.path[v] = self.path[u] + [i]
                    self.state[v] = tr['to']
                    dq.append(v)

    def path_to(self, p):
        """list of transition indices leading from the empty tree to state p"""
        return self.path[key(p)]

    def states(self):
        return list(self.state.values())
