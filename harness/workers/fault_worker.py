"""C14 conformance: fail the n-th key comparison of a call, for every n.

Part A (spec -> code; shapes, expected comparison events and completed states
printed by TLC, Cmp!DumpEv): get / set / delete of every key on every shape,
C and Python, BTree and TreeSet with instrumented object keys.  For the C
implementation the comparison sequence itself must be the predicted one.  For
every index n of the rich comparisons the call performs, the call is repeated
with an exception raised inside the n-th comparison; observed: the exception
class that reaches the caller, the tree afterwards (must be the tree before or
the completed change), _check(), reference counts of every stored key and of the
argument, and the same call repeated without a fault (must complete as the
specification says).

Part B (fault enumeration on the calls the specification has no event sequence
for): range searches, minKey/maxKey, pop, setdefault, set algebra, conflict
merge -- same observations, the number of comparisons is counted on a clean run.

usage: python -m harness.workers.fault_worker JOB.json RESULT.json"""
import json, sys, gc


class Boom(Exception):
    pass


class BoomT(TypeError):
    """what comparing keys of unrelated types raises; code that answers "not there" to a TypeError from a
    key *conversion* must not do so for one raised by a comparison"""


def main():
    global Boom
    job = json.load(open(sys.argv[1]))
    if job.get('exc') == 'TypeError':
        Boom = BoomT
    exc = job.get('exc', 'Exception')
    from harness import embed, proj as P, graph, keys
    impl, is_set = job['impl'], job['is_set']
    emb = keys.KEmb()
    BT, BU, TS, SE = embed.classes('OO', impl)
    cls = TS if is_set else BT
    leafcls = SE if is_set else BU
    old = embed.set_sizes([BT, TS], job['leaf'], job['internal'])
    with open(job['dump']) as fh:
        payloads = json.load(fh)['payloads']
    g = graph.Graph(payloads)
    with open(job['events']) as fh:
        expected = json.load(fh)['payloads']
    K = keys.K
    import BTrees.OOBTree as M
    mism, counts = [], dict(calls=0, faults=0, partb_calls=0, partb_faults=0)
    pool = {r: K(r) for r in range(0, 40)}        # one object per rank: reference counts are per object

    class V:
        """value objects: one per rank, counted in the ledger like the keys"""
        __slots__ = ('v',)

        def __init__(self, v):
            self.v = v

        def __repr__(self):
            return 'V%d' % self.v
    emb._vals = [V(i) for i in range(1, 7)]
    vpool = {('v', i + 1): o for i, o in enumerate(emb._vals)}

    def build(path_acts, cls_=None):
        t = (cls_ or cls)()
        for a in path_acts:
            k = pool[a['k']]
            if a['op'] == 'setitem':
                if is_set:
                    t.add(k)
                else:
                    t[k] = emb.val(a['v'])
            elif a['op'] == 'delitem':
                if is_set:
                    t.remove(k)
                else:
                    del t[k]
        return t

    def refs():
        # reference ledger: C implementation only (the Python implementation's objects are managed by
        # the interpreter; frames and generators kept by a traceback are released by the collector)
        if impl != 'c':
            return {}
        d = {r: sys.getrefcount(o) for r, o in pool.items()}
        d.update({'v%d' % r[1]: sys.getrefcount(o) for r, o in vpool.items()})
        return d

    def with_hook(fn, fail_at=None):
        log = []

        def hook(kind, a, b):
            log.append([kind, a.v if isinstance(a, K) else '?', b.v if isinstance(b, K) else '?'])
            if fail_at is not None and len(log) - 1 == fail_at:
                raise Boom('comparison %d' % fail_at)
        keys.HOOK[0] = hook
        try:
            try:
                res = fn()
                out = ['ok', res]
            except Boom:
                out = ['Boom']
            except KeyError:
                out = ['KeyError']
            except Exception as e:
                out = ['exc', type(e).__name__, str(e)[:60]]
        finally:
            keys.HOOK[0] = None
        return out, log

    def call_fn(t, op, k):
        kk = pool[k]
        if op == 'get':
            if is_set:
                return lambda: (1 if kk in t else 0)
            return lambda: (0 if t.get(kk, None) is None else 1)
        if op == 'set':
            if is_set:
                return lambda: (t.add(kk), None)[1]
            return lambda: t.__setitem__(kk, emb.val(1))
        if op == 'pop':
            return lambda: emb.rv(t.pop(kk))
        if op == 'sdf':
            return lambda: emb.rv(t.setdefault(kk, emb.val(1)))
        if op == 'ins':
            return lambda: t.insert(kk, emb.val(1))
        if op == 'popmin':
            return lambda: (lambda x: [x[0].v, emb.rv(x[1])])(t.popitem())
        if op == 'popmins':
            return lambda: t.pop().v
        if is_set:
            return lambda: t.remove(kk)
        return lambda: t.__delitem__(kk)

    def check(t):
        try:
            t._check()
            return 'ok'
        except Exception as e:
            return '%s: %s' % (type(e).__name__, str(e)[:60])

    def setify(p):
        if not is_set:
            return p
        if p['t'] == 'L':
            return dict(p, vs=[1] * len(p['ks']))
        return dict(p, kids=[setify(c) for c in p['kids']])

    gc.disable()        # nothing is freed behind the ledger's back; cycles are collected between shapes
    for ei in job['indices']:
        gc.collect()
        ent = expected[ei]
        tree = ent['tree']
        path_acts = [payloads[pi]['act'] for pi in g.path_to(tree)]
        before = setify(tree)
        # (composite calls, where the specification has them: pop, setdefault, insert, popitem / pop-smallest)
        extra = [o for o in ((['popmins'] if is_set else ['pop', 'sdf', 'ins', 'popmin'])) if o in ent['calls']]
        for op in ['get', 'set', 'del'] + extra:
            per_k = ent['calls'][op]
            for k in range(1, len(per_k) + 1):
                where = dict(impl=impl, is_set=is_set, sizes=[job['leaf'], job['internal']], tree=tree, op=op, k=k)
                counts['calls_' + op] = counts.get('calls_' + op, 0) + 1
                t = build(path_acts)
                if P.proj(t, emb, is_set) != before:
                    mism.append(dict(where, kind='from-state', model=before, real=P.proj(t, emb, is_set)))
                    continue
                base = refs()
                out, log = with_hook(call_fn(t, op, k))
                counts['calls'] += 1
                done = before if op == 'get' else setify(ent['done'][op][k - 1])
                if impl == 'c':
                    want = []
                    for e in per_k[k - 1]:
                        want.append(['lt', e['lhs'], e['rhs']])
                        # (one object per rank here: PyObject_RichCompareBool answers == for identical objects itself)
                        if not e['lhs'] < e['rhs'] and e['lhs'] != e['rhs']:
                            want.append(['eq', e['lhs'], e['rhs']])
                    if log != want:
                        mism.append(dict(where, kind='comparison-events', model=want, real=log))
                if P.proj(t, emb, is_set) != done:
                    mism.append(dict(where, kind='completed-state', model=done, real=P.proj(t, emb, is_set)))
                del t
                n = len(log)
                for j in range(n):
                    base0 = refs()
                    t = build(path_acts)
                    base = refs()
                    out2, log2 = with_hook(call_fn(t, op, k), fail_at=j)
                    counts['faults'] += 1
                    after = P.proj(t, emb, is_set)
                    w2 = dict(where, fail_at=j, comparisons=n)
                    if out2 != ['Boom']:
                        mism.append(dict(w2, kind='exception-lost', real=out2))
                    if after != before and after != done:
                        mism.append(dict(w2, kind='partial-change', before=before, completed=done, real=after))
                    c = check(t)
                    if c != 'ok':
                        mism.append(dict(w2, kind='unsound-after-fault', real=c))
                    now = refs()
                    if after == before and now != base:
                        gc.collect()        # (generators / frames of the Python implementation kept by the traceback)
                        now = refs()
                    if after == before and now != base:
                        mism.append(dict(w2, kind='references', real={r: now[r] - base[r] for r in now if now[r] != base[r]}))
                    # later operations behave normally: the same call, no fault
                    out3, _ = with_hook(call_fn(t, op, k))
                    after3 = P.proj(t, emb, is_set)
                    if after == before and (after3 != done or out3 != out):
                        mism.append(dict(w2, kind='follow-up', model=[out, done], real=[out3, after3]))
                    c = check(t)
                    if c != 'ok':
                        mism.append(dict(w2, kind='unsound-after-follow-up', real=c))
                    del t
                    now = refs()
                    if now != base0:
                        gc.collect()        # (frames kept alive by a traceback cycle)
                        now = refs()
                    if now != base0:
                        mism.append(dict(w2, kind='references-after-destruction', real={r: now[r] - base0[r] for r in now if now[r] != base0[r]}))
                if len(mism) > 40:
                    break
        # ---- part B: other kinds of calls on this shape
        ks_present = P.flatten(tree)[0]
        nk = len(ent['calls']['get'])
        t0 = build(path_acts)
        other_keys = [pool[r] for r in (1, 3, nk)]
        other = (SE if True else BU)(other_keys)
        othert = TS(other_keys)

        def mk_calls(t):
            lo, hi = pool[2], pool[max(2, nk - 1)]
            calls = [
                ('keys(min,max)', lambda: [x.v for x in t.keys(lo, hi)], False),
                ('keys(min,excl)', lambda: [x.v for x in t.keys(min=lo, excludemin=True)], False),
                ('keys(max,excl)', lambda: [x.v for x in t.keys(max=hi, excludemax=True)], False),
                ('minKey(b)', lambda: t.minKey(lo).v, False),
                ('maxKey(b)', lambda: t.maxKey(hi).v, False),
                ('union', lambda: [x.v for x in M.union(t, other)] if is_set else [x.v for x in M.union(t, t)], False),
                ('intersection', lambda: [x.v for x in M.intersection(t, othert)] if is_set else [x.v for x in M.intersection(t, t)], False),
                ('difference', lambda: [x.v for x in M.difference(t, other)], False),
            ]
            if is_set:
                calls += [('|', lambda: [x.v for x in (t | other)], False), ('&', lambda: [x.v for x in (t & othert)], False),
                          ('-', lambda: [x.v for x in (t - other)], False), ('isdisjoint', lambda: t.isdisjoint(other), False)]
            else:
                calls += [('pop', lambda: (t.pop(lo, None), None)[1], True), ('setdefault', lambda: (t.setdefault(lo, emb.val(1)), None)[1], True),
                          ('items(min,max)', lambda: [x.v for x, _ in t.items(lo, hi)], False),
                          ('values(min)', lambda: [v for v in t.values(lo)], False)]
            calls.append(('iter-range', lambda: [x.v for x in t.iterkeys(lo, hi)], False))
            calls += [('contains', lambda: lo in t, False), ('has_key', lambda: bool(t.has_key(lo)), False)]
            if is_set:
                calls += [('discard', lambda: t.discard(lo), True), ('remove', lambda: t.remove(lo), True), ('pop-smallest', lambda: (t.pop(), None)[1], True),
                          ('^=', lambda: (t.__ixor__((lo,)), None)[1], True)]
            else:
                calls += [('getitem', lambda: (t[lo], None)[1], False), ('get-default', lambda: (t.get(lo, None), None)[1], False),
                          ('pop-nodefault', lambda: (t.pop(lo), None)[1], True), ('popitem', lambda: (t.popitem(), None)[1], True)]
            return calls
        names = [c[0] for c in mk_calls(t0)]
        for ci, name in enumerate(names):
            t = build(path_acts)
            base = refs()
            out, log = with_hook(mk_calls(t)[ci][1])
            mutates = mk_calls(t)[ci][2]
            done = P.proj(t, emb, is_set)
            del t
            counts['partb_calls'] += 1
            if out[0] not in ('ok', 'KeyError'):
                continue
            for j in range(min(len(log), job.get('partb_cap', 40))):
                base0b = refs()
                t = build(path_acts)
                base = refs()
                # (the leaves' own reference counts too: a failed call may neither keep nor give away a reference to a node)
                leaves_ = P.collect_leaves(t) if impl == 'c' else []
                nbase = [sys.getrefcount(x) for x in leaves_]
                fn = mk_calls(t)[ci][1]
                out2, log2 = with_hook(fn, fail_at=j)
                del fn
                counts['partb_faults'] += 1
                after = P.proj(t, emb, is_set)
                if after == before and [sys.getrefcount(x) for x in leaves_] != nbase:
                    gc.collect()
                    nnow = [sys.getrefcount(x) for x in leaves_]
                    if nnow != nbase:
                        mism.append(dict(impl=impl, is_set=is_set, sizes=[job['leaf'], job['internal']], tree=tree, op=name, k=0, fail_at=j,
                                         comparisons=len(log), kind='node-references', real=[b_ - a_ for a_, b_ in zip(nbase, nnow)]))
                        for x in leaves_:
                            pass
                del leaves_
                w2 = dict(impl=impl, is_set=is_set, sizes=[job['leaf'], job['internal']], tree=tree, op=name, k=0, fail_at=j, comparisons=len(log))
                if out2 != ['Boom']:
                    mism.append(dict(w2, kind='exception-lost', real=out2))
                if after != before and not (mutates and after == done):
                    mism.append(dict(w2, kind='partial-change', before=before, completed=done, real=after))
                c = check(t)
                if c != 'ok':
                    mism.append(dict(w2, kind='unsound-after-fault', real=c))
                now = refs()
                if after == before and now != base:
                    gc.collect()
                    now = refs()
                if after == before and now != base:
                    mism.append(dict(w2, kind='references', real={r: now[r] - base[r] for r in now if now[r] != base[r]}))
                del t
                now = refs()
                if now != base0b:
                    gc.collect()
                    now = refs()
                if now != base0b:
                    mism.append(dict(w2, kind='references-after-destruction', real={r: now[r] - base0b[r] for r in now if now[r] != base0b[r]}))
        # ---- part C: the same enumeration on stand-alone leaf containers (Bucket / Set) holding this shape's keys
        def mk_leaf():
            return leafcls([pool[r] for r in ks_present]) if is_set else leafcls({pool[r]: emb.val(1) for r in ks_present})

        def leaf_calls(b):
            a, z = pool[2], pool[max(2, nk)]
            cs = [('leaf contains', lambda: a in b, False), ('leaf has_key', lambda: bool(b.has_key(a)), False),
                  ('leaf keys(min,max)', lambda: [x.v for x in b.keys(a, z)], False),
                  ('leaf minKey(b)', lambda: b.minKey(a).v, False), ('leaf maxKey(b)', lambda: b.maxKey(z).v, False)]
            if is_set:
                cs += [('leaf add', lambda: (b.add(a), None)[1], True), ('leaf remove', lambda: b.remove(a), True),
                       ('leaf discard', lambda: b.discard(a), True), ('leaf pop-smallest', lambda: (b.pop(), None)[1], True)]
            else:
                cs += [('leaf get', lambda: (b.get(a, None), None)[1], False), ('leaf getitem', lambda: (b[a], None)[1], False),
                       ('leaf setitem', lambda: b.__setitem__(a, emb.val(2)), True), ('leaf delitem', lambda: b.__delitem__(a), True),
                       ('leaf pop', lambda: (b.pop(a, None), None)[1], True), ('leaf setdefault', lambda: (b.setdefault(a, emb.val(2)), None)[1], True),
                       ('leaf popitem', lambda: (b.popitem(), None)[1], True)]
            return cs
        if ks_present:
            lnames = [c[0] for c in leaf_calls(mk_leaf())]
            for ci, name in enumerate(lnames):
                b = mk_leaf()
                before_l = P.proj_leaf(b, emb, is_set)
                out, log = with_hook(leaf_calls(b)[ci][1])
                done_l = P.proj_leaf(b, emb, is_set)
                del b
                counts['partb_calls'] += 1
                if out[0] not in ('ok', 'KeyError'):
                    continue
                for j in range(min(len(log), job.get('partb_cap', 40))):
                    base0b = refs()
                    b = mk_leaf()
                    base = refs()
                    fn = leaf_calls(b)[ci][1]
                    out2, _ = with_hook(fn, fail_at=j)
                    del fn
                    counts['partb_faults'] += 1
                    after = P.proj_leaf(b, emb, is_set)
                    w2 = dict(impl=impl, is_set=is_set, sizes=[job['leaf'], job['internal']], tree=tree, op=name, k=0, fail_at=j, comparisons=len(log))
                    if out2 != ['Boom']:
                        mism.append(dict(w2, kind='exception-lost', real=out2))
                    if after != before_l and after != done_l:
                        mism.append(dict(w2, kind='partial-change', before=before_l, completed=done_l, real=after))
                    now = refs()
                    if after == before_l and now != base:
                        gc.collect()
                        now = refs()
                    if after == before_l and now != base:
                        mism.append(dict(w2, kind='references', real={r: now[r] - base[r] for r in now if now[r] != base[r]}))
                    del b
                    now = refs()
                    if now != base0b:
                        gc.collect()
                        now = refs()
                    if now != base0b:
                        mism.append(dict(w2, kind='references-after-destruction', real={r: now[r] - base0b[r] for r in now if now[r] != base0b[r]}))
        # conflict merge of leaf states with instrumented keys
        if ks_present and job.get('merge', True):
            ks = ks_present
            def st(keys_):
                if is_set:
                    return (tuple(pool[r] for r in keys_),)
                flat = []
                for r in keys_:
                    flat += [pool[r], emb.val(1)]
                return (tuple(flat),)
            o = ks
            cstate = sorted(set(ks + [nk + 1]))
            nstate = sorted(set(ks + [nk + 2]))
            b = leafcls()
            base = refs()
            out, log = with_hook(lambda: b._p_resolveConflict(st(o), st(cstate), st(nstate)) and None)
            counts['partb_calls'] += 1
            for j in range(len(log)):
                base = refs()
                out2, _ = with_hook(lambda: b._p_resolveConflict(st(o), st(cstate), st(nstate)) and None, fail_at=j)
                counts['partb_faults'] += 1
                w2 = dict(impl=impl, is_set=is_set, sizes=[job['leaf'], job['internal']], tree=tree, op='resolveConflict', k=0, fail_at=j, comparisons=len(log))
                if out2 != ['Boom']:
                    mism.append(dict(w2, kind='exception-lost', real=out2))
                now = refs()
                if now != base:
                    mism.append(dict(w2, kind='references', real={r: now[r] - base[r] for r in now if now[r] != base[r]}))
        if len(mism) > 40:
            break
    embed.restore_sizes(old)
    for mm in mism:
        mm['exc'] = exc
    json.dump(dict(counts=counts, mismatches=mism[:60]), open(sys.argv[2], 'w'), default=repr)


if __name__ == '__main__':
    main()
