"""C06 conformance: serialized state forms and round trips on every replayed
model state; C and Python pickles compared byte for byte.

usage: python -m harness.workers.state_worker JOB.json RESULT.json"""
import copy, json, pickle, sys, hashlib, base64


def stateform(node, emb, is_set, leafidx):
    """real __getstate__ rendered like StateImpl!GetStateV"""
    from harness import proj as P
    st = node.__getstate__()
    if not P.is_tree(node):
        ks, vs = P._leaf_items(node, is_set)
        return {'f': 'leaf', 'ks': [emb.rk(k) for k in ks],
                'vs': [1] * len(ks) if is_set else [emb.rv(v) for v in vs], 'nx': leafidx(node._next)}
    if st is None:
        return {'f': 'none'}
    if len(st) == 1:
        # inline leaf state: a tuple, not an object
        ls = st[0][0]
        flat = ls[0]
        nxt = ls[1] if len(ls) > 1 else None
        if is_set:
            ks, vs = list(flat), [1] * len(flat)
        else:
            ks, vs = list(flat[0::2]), [emb.rv(v) for v in flat[1::2]]
        return {'f': 'emb', 'leaf': {'f': 'leaf', 'ks': [emb.rk(k) for k in ks], 'vs': vs, 'nx': leafidx(nxt)}}
    kids, seps = [], []
    for i, x in enumerate(st[0]):
        if i % 2:
            seps.append(emb.rk(x))
        else:
            kids.append(stateform(x, emb, is_set, leafidx))
    return {'f': 'node', 'kids': kids, 'seps': seps, 'fb': leafidx(st[1])}


class _I(int):
    pass


class _F(float):
    pass


class _B(bytes):
    pass


def _sub(x, code):
    """the same number / string as an instance of a subclass (bool where the number is 0 or 1)"""
    if code in 'ILUQ':
        return bool(x) if x in (0, 1) else _I(x)
    if code == 'F':
        return _F(x)
    if code in 'fs':
        return _B(x)
    return x


class SubEmb:
    """an embedding that offers keys and values as instances of subclasses of int / float / bytes: the native
    families must store (and pickle) plain numbers and strings whatever they were given"""

    def __init__(self, emb):
        self.e = emb

    def key(self, r):
        return _sub(self.e.key(r), self.e.fam[0])

    def val(self, r):
        return _sub(self.e.val(r), self.e.fam[1])

    def __getattr__(self, n):
        return getattr(self.e, n)


def main():
    job = json.load(open(sys.argv[1]))
    from harness import embed, proj as P, api, graph
    with open(job['dump']) as fh:
        payloads = json.load(fh)['payloads']
    g = graph.Graph(payloads)
    fam, is_set = job['fam'], job['is_set']
    emb = embed.Embedding(fam, job.get('emb', 'mid'))
    if job.get('argtype') == 'sub':
        emb = SubEmb(emb)
    cC = embed.classes(fam, 'c')
    cP = embed.classes(fam, 'py')
    old = embed.set_sizes([cC[0], cC[2], cP[0], cP[2]], job['leaf'], job['internal'])
    apply = api.apply_set if is_set else api.apply_map
    mism, known = [], {}
    counts = dict(replayed=0, roundtrips=0, pickles_compared=0)
    pickles = []
    follow = [dict(op='setitem', k=job['nkeys'], v=1), dict(op='delitem', k=1, v=0), dict(op='setitem', k=1, v=1),
              dict(op='delitem', k=job['nkeys'], v=0)]

    def build(cls, ti):
        t = cls()
        for pi in g.path_to(payloads[ti]['from']):
            apply(t, emb, payloads[pi]['act'], 0)
        apply(t, emb, payloads[ti]['act'], 0)
        return t

    def leafidxer(t):
        leaves = P.collect_leaves(t)
        ids = {id(l): i + 1 for i, l in enumerate(leaves)}
        return lambda b: 0 if b is None else ids.get(id(b), 999)

    for ti in job['indices']:
        tr = payloads[ti]
        objs = {}
        for impl, classes in (('c', cC), ('py', cP)):
            cls = classes[2] if is_set else classes[0]
            t = build(cls, ti)
            objs[impl] = t
            counts['replayed'] += 1
            where = dict(fam=fam, impl=impl, is_set=is_set, sizes=[job['leaf'], job['internal']], ti=ti,
                         path=[payloads[pi]['act'] for pi in g.path_to(tr['from'])], act=tr['act'])
            if P.proj(t, emb, is_set) != tr['to']:
                mism.append(dict(where, kind='structure', model=tr['to'], real=P.proj(t, emb, is_set)))
                continue
            # native families hold plain numbers / strings (exact types), whatever was offered
            odd = []
            for leaf in P.collect_leaves(t):
                ks_, vs_ = P._leaf_items(leaf, is_set)
                odd += [repr(x) for x in ks_ if fam[0] != 'O' and type(x) not in (int, float, bytes)]
                odd += [repr(x) for x in (vs_ or []) if fam[1] != 'O' and type(x) not in (int, float, bytes)]
            if odd:
                mism.append(dict(where, kind='stored-type', real=odd[:6]))
            gs = stateform(t, emb, is_set, leafidxer(t))
            if gs != tr['gs']:
                mism.append(dict(where, kind='getstate-form', model=tr['gs'], real=gs))
            if tr['gs']['f'] == 'emb' and 'gso' in tr:
                # the same tree with its only leaf a stored object: the state must refer to it
                t2 = build(cls, ti)
                t2._firstbucket._p_oid = b'\0' * 7 + b'\1'
                gso = stateform(t2, emb, is_set, leafidxer(t2))
                if gso != tr['gso']:
                    mism.append(dict(where, kind='getstate-form-stored-leaf', model=tr['gso'], real=gso))
                del t2
            deep_broken = tr['rt'] != tr['to']      # the model predicts the inline-leaf damage (finding D25)
            # round trips
            trips = [('setstate', lambda: _setstate(cls, t)), ('deepcopy', lambda: copy.deepcopy(t)),
                     ('copy', lambda: copy.copy(t))]
            for proto in range(0, pickle.HIGHEST_PROTOCOL + 1):
                trips.append(('pickle%d' % proto, (lambda pr: (lambda: pickle.loads(pickle.dumps(t, pr))))(proto)))
            for name, f in trips:
                counts['roundtrips'] += 1
                try:
                    u = f()
                except Exception as e:
                    if name == 'copy' and impl == 'py' and isinstance(e, TypeError) and tr['gs']['f'] == 'node':
                        known['D26-copy'] = known.get('D26-copy', 0) + 1
                        continue
                    mism.append(dict(where, kind='roundtrip-raises', trip=name, real='%s: %s' % (type(e).__name__, e)))
                    continue
                shallow = name in ('setstate', 'copy')
                want = tr['to'] if (shallow or not deep_broken) else tr['rt']
                try:
                    rp = P.proj(u, emb, is_set)
                except Exception as e:
                    mism.append(dict(where, kind='roundtrip-unprojectable', trip=name, real=repr(e)))
                    continue
                if rp != want:
                    mism.append(dict(where, kind='roundtrip-structure', trip=name, model=want, real=rp))
                    continue
                if want is tr['rt'] and deep_broken:
                    known['D25'] = known.get('D25', 0) + 1
                    continue
                if [emb.rk(k) for k in u.keys()] != P.flatten(tr['to'])[0]:
                    mism.append(dict(where, kind='roundtrip-contents', trip=name, real=[emb.rk(k) for k in u.keys()]))
                    continue
                try:
                    u._check()
                except Exception as e:
                    mism.append(dict(where, kind='roundtrip-unsound', trip=name, real=repr(e)))
                    continue
                if not shallow and not (job.get('nofollow_py') and impl == 'py'):
                    # (nofollow_py: in this process the copy of a Python tree is a C tree; after a split over a loose separator the
                    #  two implementations differ in shape - finding D52 - so the twin comparison is left to the C side)
                    # fully usable: the rest of a behaviour continues identically on copy and original twin
                    twin = build(cls, ti)
                    for a in follow:
                        r1, r2 = apply(u, emb, a, 0), apply(twin, emb, a, 0)
                        if r1 != r2 or P.proj(u, emb, is_set) != P.proj(twin, emb, is_set):
                            mism.append(dict(where, kind='roundtrip-unusable', trip=name, after=a))
                            break
        # __setstate__ replaces the whole state of an object that already has one (what a data manager does when it
        # reloads an invalidated object): leaf <- state of another leaf (with and without successor), tree <- None,
        # tree <- state of the tree before this transition
        for impl, classes in (('c', cC), ('py', cP)):
            if impl not in objs:
                continue
            cls = classes[2] if is_set else classes[0]
            where = dict(fam=fam, impl=impl, is_set=is_set, sizes=[job['leaf'], job['internal']], ti=ti, act=tr['act'])
            tgt, src = build(cls, ti), build(cls, ti)
            tl, sl = P.collect_leaves(tgt), P.collect_leaves(src)
            for ai in range(min(len(tl), 3)):
                for bi in (0, len(sl) - 1):
                    if ai == bi and len(sl) > 1:
                        continue
                    st = sl[bi].__getstate__()
                    counts['roundtrips'] += 1
                    try:
                        tl[ai].__setstate__(st)
                        got = tl[ai].__getstate__()
                    except Exception as e:
                        mism.append(dict(where, kind='setstate-on-used-leaf-raises', real=repr(e)))
                        continue
                    same = (got is None and st is None) or (got is not None and st is not None and len(got) == len(st) and got[0] == st[0]
                                                            and (len(st) == 1 or got[1] is st[1]))
                    if not same:
                        mism.append(dict(where, kind='setstate-on-used-leaf', target=ai, source=bi,
                                         model='state %s successor' % ('with' if st and len(st) > 1 else 'without'),
                                         real='state %s successor' % ('with' if got and len(got) > 1 else 'without')))
            del tl, sl, tgt, src
            for what in ('none', 'previous'):
                tgt = build(cls, ti)
                counts['roundtrips'] += 1
                try:
                    if what == 'none':
                        tgt.__setstate__(None)
                        want = {'t': 'I', 'kids': [], 'seps': [], 'fb': 0}
                    else:
                        prev = cls()
                        for pi in g.path_to(tr['from']):
                            apply(prev, emb, payloads[pi]['act'], 0)
                        tgt.__setstate__(prev.__getstate__())
                        want = P.proj(prev, emb, is_set)
                    got = P.proj(tgt, emb, is_set)
                except Exception as e:
                    mism.append(dict(where, kind='setstate-on-used-tree-raises', source=what, real=repr(e)))
                    continue
                if got != want:
                    mism.append(dict(where, kind='setstate-on-used-tree', source=what, model=want, real=got))
        # a user subclass of the tree class with a leaf class of its own (the documented _bucket_type hook): its states
        # load, copy and pickle like the stock classes' (leaves stay instances of the custom leaf class)
        if ti % 3 == 0:
            for impl, classes in (('c', cC), ('py', cP)):
                treebase, leafbase = (classes[2], classes[3]) if is_set else (classes[0], classes[1])
                nm = '%s%s' % (impl, 'S' if is_set else 'M')
                SubL = type('SubLeaf' + nm, (leafbase,), {})
                SubT = type('SubTree' + nm, (treebase,), dict(_bucket_type=SubL, max_leaf_size=job['leaf'], max_internal_size=job['internal']))
                for kls in (SubL, SubT):
                    kls.__module__ = '__main__'
                    setattr(sys.modules['__main__'], kls.__name__, kls)
                where = dict(fam=fam, impl=impl, is_set=is_set, sizes=[job['leaf'], job['internal']], ti=ti, act=tr['act'], subclass=True)
                try:
                    t = build(SubT, ti)
                except Exception as e:
                    mism.append(dict(where, kind='subclass-build-raises', real=repr(e)))
                    continue
                if P.proj(t, emb, is_set) != tr['to']:
                    mism.append(dict(where, kind='subclass-structure', model=tr['to'], real=P.proj(t, emb, is_set)))
                    continue
                if tr['rt'] != tr['to']:
                    continue            # (the inline-leaf damage of finding D25 is predicted for this state)
                for name, f in (('setstate', lambda: _setstate(SubT, t)), ('deepcopy', lambda: copy.deepcopy(t)),
                                ('pickle2', lambda: pickle.loads(pickle.dumps(t, 2))), ('pickle5', lambda: pickle.loads(pickle.dumps(t, 5)))):
                    counts['roundtrips'] += 1
                    try:
                        u = f()
                        rp = P.proj(u, emb, is_set)
                        u._check()
                        leaves_ok = all(type(l) is SubL for l in P.collect_leaves(u))
                    except Exception as e:
                        mism.append(dict(where, kind='subclass-roundtrip-raises', trip=name, real='%s: %s' % (type(e).__name__, str(e)[:80])))
                        continue
                    if rp != tr['to']:
                        mism.append(dict(where, kind='subclass-roundtrip-structure', trip=name, model=tr['to'], real=rp))
                    elif not leaves_ok:
                        mism.append(dict(where, kind='subclass-roundtrip-leaf-class', trip=name))
        # fs leaves: toBytes() is all keys then all values; fromBytes() rebuilds the leaf (C and Python alike)
        if fam == 'fs' and not is_set and 'c' in objs and 'py' in objs:
            mleaves = []

            def _ml(p):
                if p['t'] == 'L':
                    mleaves.append(p)
                else:
                    for c_ in p['kids']:
                        _ml(c_)
            _ml(tr['to'])
            for impl_, classes_ in (('c', cC), ('py', cP)):
                for li, leaf in enumerate(P.collect_leaves(objs[impl_])):
                    want_b = b''.join(emb.key(k) for k in mleaves[li]['ks']) + b''.join(emb.val(v) for v in mleaves[li]['vs'])
                    wantback = [[k, v] for k, v in zip(mleaves[li]['ks'], mleaves[li]['vs'])]
                    try:
                        got_b = leaf.toString()         # (the spelling both implementations offer)
                        back = wantback
                        if impl_ == 'c':                # toBytes / fromBytes / fromString exist in the C type only
                            if leaf.toBytes() != got_b:
                                got_b = 'toBytes differs from toString'
                            nb = classes_[1]()
                            nb.fromBytes(got_b)
                            back = [[emb.rk(k), emb.rv(v)] for k, v in nb.items()]
                    except Exception as e:
                        got_b, back = repr(e), None
                    if got_b != want_b or back != wantback:
                        mism.append(dict(fam=fam, impl=impl_, is_set=is_set, sizes=[job['leaf'], job['internal']], ti=ti, act=tr['act'],
                                         kind='fs-toBytes', model=repr(want_b), real=[repr(got_b), back]))
                    counts['roundtrips'] += 1
        # C and Python pickles byte for byte
        if 'c' in objs and 'py' in objs:
            for proto in range(0, pickle.HIGHEST_PROTOCOL + 1):
                try:
                    a, b = pickle.dumps(objs['c'], proto), pickle.dumps(objs['py'], proto)
                except Exception as e:
                    mism.append(dict(fam=fam, impl='both', kind='pickle-raises', ti=ti, real=repr(e)))
                    break
                counts['pickles_compared'] += 1
                if a != b and fam == 'fs' and _fastdump(objs['c'], proto) == _fastdump(objs['py'], proto):
                    # the only difference is pickle's memo: the Python implementation shares one bytes
                    # object between a leaf key and the separator above it (finding D27)
                    known['D27'] = known.get('D27', 0) + 1
                    continue
                if a != b:
                    mism.append(dict(fam=fam, impl='both', is_set=is_set, kind='pickle-bytes-differ', ti=ti, proto=proto,
                                     sizes=[job['leaf'], job['internal']], nleaves=P.nleaves(tr['to']),
                                     path=[payloads[pi]['act'] for pi in g.path_to(tr['from'])], act=tr['act'],
                                     c=a.hex()[:400], py=b.hex()[:400]))
                    break
            if len(pickles) < job.get('keep_pickles', 50) and tr['rt'] == tr['to']:
                pickles.append(dict(ti=ti, proto=2 + ti % 4, data=base64.b64encode(pickle.dumps(objs['c'], 2 + ti % 4)).decode(),
                                    to=tr['to']))
        if len(mism) > 40:
            break
    embed.restore_sizes(old)
    json.dump(dict(counts=counts, mismatches=mism[:40], nmism=len(mism), known=known, pickles=pickles),
              open(sys.argv[2], 'w'), default=repr)


def _fastdump(obj, proto):
    import io
    f = io.BytesIO()
    p = pickle.Pickler(f, proto)
    p.fast = True           # no memo: shared sub-objects are written out each time
    p.dump(obj)
    return f.getvalue()


def _setstate(cls, t):
    u = cls()
    st = t.__getstate__()
    u.__setstate__(st)
    return u


if __name__ == '__main__':
    main()
