"""C16 conformance, second part (C implementation): references around calls the transition ledger does not replay.

(a) rejected loads: __setstate__ of a state that fails part-way (a key or value of the wrong type at position j,
    for every j) onto a container that already holds entries, in the object-keyed / object-valued families incl.
    the mixed ones (OI, OL, IO, LO).  Ledger after the TypeError: every key / value object is referenced exactly
    as often as the container shows it (Ledger!OwnedK / ValSlots on what keys()/values() report); after the
    container is dropped every count is back at its baseline.
(b) cyclic garbage: a stored key (or value) refers back to its container, from the first, a middle and the last leaf;
    after the last outside reference is dropped and the collector has run, the container and every stored object
    must be gone (a traverse function that skips a link keeps them alive for ever).

usage: python -m harness.workers.ledger_misc_worker JOB.json RESULT.json"""
import gc, json, sys, weakref


class Obj:
    """orderable object usable as key or value; may carry a back reference"""

    def __init__(self, v):
        self.v = v
        self.back = None

    def __lt__(self, o):
        return self.v < o.v

    def __eq__(self, o):
        return isinstance(o, Obj) and self.v == o.v

    def __hash__(self):
        return hash(self.v)


def main():
    job = json.load(open(sys.argv[1]))
    from harness import embed
    fam = job['fam']
    BT, BU, TS, SE = embed.classes(fam, 'c')
    old = embed.set_sizes([BT, TS], 2, 2)
    okey, oval = fam[0] == 'O', fam[1] == 'O'
    mism, counts = [], dict(rejected_loads=0, cycles=0)
    if fam == 'fs':
        # the fs family's own memory handling: the compact byte form (toBytes / toString: all 2-byte keys, then all 6-byte
        # values) loaded by fromBytes / fromString into fresh buckets and into buckets that already own smaller or larger
        # vectors; what is read back must be exactly what went in (on the sanitizer build: no access outside the vectors)
        def fk(i):
            return bytes([97 + i // 26, 97 + i % 26])

        def fv(i):
            return bytes([65 + (i * 7) % 26]) * 5 + bytes([48 + i % 10])
        for n in (0, 1, 2, 3, 4, 5, 7, 8, 9, 16, 17, 33, 64, 100):
            src = BU({fk(i): fv(i) for i in range(n)})
            raw = src.toBytes()
            if raw != src.toString() or len(raw) != 8 * n:
                mism.append(dict(fam=fam, kind='fs-byte-form', entries=n, real=len(raw)))
            for prior in (None, 1, 3, 40, 120):
                for loader in ('fromBytes', 'fromString'):
                    b = BU() if prior is None else BU({fk(200 + i): fv(i) for i in range(prior)})
                    getattr(b, loader)(raw)
                    counts['rejected_loads'] += 1
                    if list(b.items()) != list(src.items()) or len(b) != n:
                        mism.append(dict(fam=fam, kind='fs-fromBytes-contents', entries=n, prior=prior, loader=loader))
                    # ... and the bucket is an ordinary bucket afterwards
                    for i in range(n, n + 6):
                        b[fk(i)] = fv(i)
                    del b[fk(n)]
                    if [k for k in b.keys()] != [fk(i) for i in range(n + 6) if i != n] or any(b[fk(i)] != fv(i) for i in range(n + 6) if i != n):
                        mism.append(dict(fam=fam, kind='fs-after-fromBytes', entries=n, prior=prior, loader=loader))
                    if b.toBytes() != BU({fk(i): fv(i) for i in range(n + 6) if i != n}).toBytes():
                        mism.append(dict(fam=fam, kind='fs-toBytes-after-fromBytes', entries=n, prior=prior, loader=loader))
                    del b
        embed.restore_sizes(old)
        json.dump(dict(counts=counts, mismatches=mism[:40]), open(sys.argv[2], 'w'), default=repr)
        return
    pool = [Obj(i) for i in range(40)]

    def key(i):
        return pool[i] if okey else 10 * i

    def val(i):
        return pool[20 + i % 10] if oval else i

    def refs():
        return [sys.getrefcount(o) for o in pool]

    # ---- (a) rejected loads
    gc.disable()
    for kind, cls, is_set in (('Bucket', BU, False), ('Set', SE, True), ('BTree', BT, False), ('TreeSet', TS, True)):
        for nold in (1, 2, 5):
            for nnew in (1, 3, 6):
                for j in range(nnew * (1 if is_set else 2)):
                    flat = []
                    for i in range(nnew):
                        flat += [key(10 + i)] if is_set else [key(10 + i), val(10 + i)]
                    # position j gets something the slot cannot hold: a non-integer for a native slot; for an object
                    # slot nothing is unrepresentable as a value, and a default-comparison object as a key
                    slot_is_key = is_set or j % 2 == 0
                    if slot_is_key:
                        bad = object() if okey else 'x'
                    else:
                        if oval:
                            continue
                        bad = 'x'
                    flat[j] = bad
                    state = (tuple(flat),)
                    if kind in ('BTree', 'TreeSet'):
                        state = ((state,),)
                    del flat
                    base = refs()           # (the state tuple stays alive, and the same, until the end of this round)
                    c = cls([key(i) for i in range(nold)]) if is_set else cls({key(i): val(i) for i in range(nold)})
                    counts['rejected_loads'] += 1
                    try:
                        c.__setstate__(state)
                        outcome = 'accepted'
                    except TypeError:
                        outcome = 'TypeError'
                    except Exception as e:
                        outcome = 'exc:' + type(e).__name__
                    where = dict(fam=fam, kind=kind, held=nold, loaded=nnew, bad_at=j, outcome=outcome)
                    if outcome != 'TypeError':
                        # (an object key with default comparison is checked on insertion, not on load: recorded under C13)
                        del c
                        continue
                    try:
                        shown = list(c.keys()) + ([] if is_set else list(c.values()))
                    except Exception as e:
                        mism.append(dict(where, kind='unreadable-after-rejected-load', real=repr(e)))
                        shown = []
                    del shown
                    shown2 = list(c.keys()) + ([] if is_set else list(c.values()))
                    want = [b + 2 * sum(1 for x in shown2 if x is o) for b, o in zip(base, pool)]   # one in the container, one in shown2
                    now = refs()
                    if now != want:
                        mism.append(dict(where, kind='ledger-after-rejected-load',
                                         delta_real_model={i: now[i] - want[i] for i in range(len(pool)) if now[i] != want[i]}))
                    del shown2, c
                    now = refs()
                    if now != base:
                        gc.collect()
                        now = refs()
                    if now != base:
                        mism.append(dict(where, kind='references-after-destruction',
                                         delta_real_model={i: now[i] - base[i] for i in range(len(pool)) if now[i] != base[i]}))
                    if len(mism) > 20:
                        break
    gc.enable()
    # ---- (b) cyclic garbage
    if okey or oval:
        for kind, cls, is_set in (('Bucket', BU, False), ('Set', SE, True), ('BTree', BT, False), ('TreeSet', TS, True)):
            if is_set and not okey:
                continue
            for n in (1, 2, 7):
                for at in sorted({0, n // 2, n - 1}):
                    objs = [Obj(100 + i) for i in range(2 * n)]
                    if is_set:
                        c = cls([objs[i] for i in range(n)])
                    else:
                        c = cls({(objs[i] if okey else i): (objs[n + i] if oval else i) for i in range(n)})
                    # the object stored at position `at` (key, else value) refers back to the container
                    holder = objs[at] if okey else objs[n + at]
                    holder.back = c
                    probes = [weakref.ref(o) for o in objs if sys.getrefcount(o) > 2]
                    stored = len(probes)
                    del objs, holder, c
                    gc.collect()
                    counts['cycles'] += 1
                    alive = sum(1 for w in probes if w() is not None)
                    if alive:
                        mism.append(dict(fam=fam, kind='cycle-not-collected', container=kind, entries=n, back_reference_at=at,
                                         real='%d of %d stored objects still alive after gc.collect()' % (alive, stored)))
    # ---- (c) byValue(): reports (value, key) pairs; the stored objects keep exactly their references
    if oval:
        gc.disable()
        for kind, cls in (('Bucket', BU), ('BTree', BT)):
            for n in (1, 3, 7):
                c = cls({key(i): val(i) for i in range(n)})
                base = refs()
                for _ in range(3):
                    try:
                        r = c.byValue(pool[20])
                        got = [(v, k) for v, k in r]
                        del r, got
                    except Exception as e:
                        mism.append(dict(fam=fam, kind='byValue-raises', container=kind, real=repr(e)))
                        break
                now = refs()
                counts['byvalue'] = counts.get('byvalue', 0) + 1
                if now != base:
                    mism.append(dict(fam=fam, kind='ledger-after-byValue', container=kind, entries=n,
                                     delta_real_model={i: now[i] - base[i] for i in range(len(pool)) if now[i] != base[i]}))
                del c
        gc.enable()
    # ---- (d) the node-size attributes of the classes: set to legal values, deleted (refused - there is nothing to fall back
    #          to), set back; the classes work as before (a crash of this process is reported by the driver)
    for cls in (BT, TS):
        for name in ('max_leaf_size', 'max_internal_size'):
            saved = getattr(cls, name)
            try:
                delattr(cls, name)
                out = 'deleted'
            except (TypeError, AttributeError):
                out = 'refused'
            if not hasattr(cls, name):
                mism.append(dict(fam=fam, kind='class-attribute-gone', real=[cls.__name__, name, out]))
            setattr(cls, name, saved)
            counts['class_attr'] = counts.get('class_attr', 0) + 1
        c = cls()
        for i in range(24):
            c.add(key(i)) if cls is TS else c.__setitem__(key(i), val(i))
        try:
            c._check()
        except Exception as e:
            mism.append(dict(fam=fam, kind='unsound-after-class-attribute-juggling', real=repr(e)))
        del c
    # ---- (e) objects that only claim to be C containers (the pure-Python twins report the C classes as their __class__),
    #          and junk, where the C code follows pointers: operands of set operations are iterated like any iterable,
    #          states naming them as successor / first leaf are refused - nothing is read as a C struct that is not one
    PBT, PBU, PTS, PSE = embed.classes(fam, 'py')
    M = embed.module_of(fam)
    ks_ = [key(i) for i in range(6)]
    cset, pset = SE(ks_[:4]), PSE(ks_[2:])
    try:
        for fn_, want in ((M.union, ks_), (M.intersection, ks_[2:4]), (M.difference, ks_[:2])):
            for a_, b_ in ((cset, pset), (TS(ks_[:4]), PTS(ks_[2:]))):
                got = list(fn_(a_, b_))
                counts['twin_operands'] = counts.get('twin_operands', 0) + 1
                if [k for k in got] != want:
                    mism.append(dict(fam=fam, kind='python-twin-as-operand', op=fn_.__name__, real=repr(got)[:120], model=repr(want)[:120]))
        if list(cset | pset) != ks_ or list(cset & pset) != ks_[2:4] or list(cset - pset) != ks_[:2]:
            mism.append(dict(fam=fam, kind='python-twin-as-operand', op='operators'))
    except Exception as e:
        mism.append(dict(fam=fam, kind='python-twin-as-operand-raises', real=repr(e)[:120]))
    # (the successor named in a leaf state is not checked by the code: conflict resolution hands reference stubs there)
    for tcls, lcls, plcls in ((BT, BU, PBU), (TS, SE, PSE)):
        l0 = lcls({key(1): val(1)}) if lcls is BU else lcls([key(1)])
        l1 = lcls({key(3): val(3)}) if lcls is BU else lcls([key(3)])
        l0.__setstate__((l0.__getstate__()[0], l1))
        for label, fb in (('python-twin', plcls({key(1): val(1)}) if lcls is BU else plcls([key(1)])), ('int', 42)):
            t = tcls()
            try:
                t.__setstate__(((l0, key(3), l1), fb))
                mism.append(dict(fam=fam, kind='firstbucket-accepted', container=tcls.__name__, what=label))
            except TypeError:
                pass
            counts['junk_states'] = counts.get('junk_states', 0) + 1
    embed.restore_sizes(old)
    json.dump(dict(counts=counts, mismatches=mism[:40]), open(sys.argv[2], 'w'), default=repr)


if __name__ == '__main__':
    main()
