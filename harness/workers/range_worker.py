"""C02 conformance: put the real tree into every model state of a dump and
issue every range query / minKey / maxKey / lazy-sequence operation through
the public API; emit (deduplicated) records for TLC to judge.

usage: python -m harness.workers.range_worker JOB.json RESULT.json"""
import json, sys, itertools


def main():
    job = json.load(open(sys.argv[1]))
    from harness import embed, proj as P, api, graph
    with open(job['dump']) as fh:
        payloads = json.load(fh)['payloads']
    g = graph.Graph(payloads)
    fam, impl, is_set = job['fam'], job['impl'], job['is_set']
    kind = job.get('kind', 'tree')
    emb = embed.Embedding(fam, job.get('emb', 'mid'))
    BT, BU, TS, SE = embed.classes(fam, impl)
    cls = (TS if is_set else BT) if kind == 'tree' else (SE if is_set else BU)
    old = embed.set_sizes([BT, TS], job['leaf'], job['internal'])
    apply = api.apply_set if is_set else api.apply_map
    bounds = job['bounds']            # ranks usable as bounds (0 = None)
    recs = {}
    counts = dict(states=0, calls=0)
    crashes = []

    def add(r):
        recs.setdefault(json.dumps(r, sort_keys=True), r)

    def rk(x):
        return emb.rk(x)

    def bound(b):
        return None if b == 0 else emb.key(b)

    states = g.states()
    sel = job.get('states')
    if sel is not None:
        states = [states[i] for i in sel if i < len(states)]
    for st in states:
        t = cls()
        for pi in g.path_to(st):
            apply(t, emb, payloads[pi]['act'], 0)
        counts['states'] += 1
        cs = [rk(k) for k in t.keys()]
        vs = [1] * len(cs) if is_set else [emb.rv(v) for v in t.values()]
        base = dict(cs=cs, vs=vs)
        for b in bounds:
            for name in ('minKey', 'maxKey'):
                try:
                    got = rk(getattr(t, name)(bound(b))) if b else rk(getattr(t, name)())
                except ValueError:
                    got = 0
                except Exception as e:
                    got = 'exc:' + type(e).__name__
                counts['calls'] += 1
                add(dict(base, kind=name, b=b, got=got))
        variant = 0
        for lo, hi, xl, xh in itertools.product(bounds, bounds, (0, 1), (0, 1)):
            q = [lo, hi, xl, xh]
            args = (bound(lo), bound(hi), bool(xl), bool(xh))
            kw = {}
            if lo:
                kw['min'] = bound(lo)
            if hi:
                kw['max'] = bound(hi)
            if xl:
                kw['excludemin'] = True
            if xh:
                kw['excludemax'] = True
            variant += 1
            names = ['keys', 'iterkeys'] if hasattr(t, 'iterkeys') else ['keys']
            if not is_set:
                names += ['values', 'items', 'itervalues', 'iteritems']
            for name in names:
                try:
                    f = getattr(t, name)
                    res = f(*args) if (variant + len(name)) % 2 else f(**kw)
                    got = list(res)
                    base_kind = name.replace('iter', '')
                    if base_kind == 'keys':
                        got = [rk(x) for x in got]
                    elif base_kind == 'values':
                        got = [emb.rv(x) for x in got]
                    else:
                        got = [[rk(a), emb.rv(b_)] for a, b_ in got]
                except Exception as e:
                    base_kind = name.replace('iter', '')
                    got = 'exc:' + type(e).__name__
                counts['calls'] += 1
                add(dict(base, kind=base_kind, q=q, got=got))
            # the lazy sequence: len, indexing with finger movement, slices
            if kind == 'tree':
                try:
                    seq = t.keys(*args)
                    n = len(seq)
                    add(dict(base, kind='len', q=q, got=n))
                    order = list(range(-(n + 2), n + 2))
                    # deterministic shuffle so the finger moves both ways
                    order = order[variant % 3::3] + order[(variant + 1) % 3::3][::-1] + order[(variant + 2) % 3::3]
                    idx = []
                    for j in order:
                        try:
                            idx.append([j, rk(seq[j])])
                        except IndexError:
                            idx.append([j, -1])
                        counts['calls'] += 1
                    add(dict(base, kind='index', q=q, idx=idx))
                    for (a, b_) in ((0, n), (1, n - 1), (-2, n + 3), (n, 0), (1, 2), (-1, n), (-(n + 1), 1), (2, -1)):
                        got = [rk(x) for x in seq[a:b_]]
                        counts['calls'] += 1
                        add(dict(base, kind='slice', q=q, lo=a, hi=b_, got=got))
                    if not is_set:
                        sv = t.items(*args)
                        j = (variant * 7) % (n + 1) - 1
                        try:
                            a, b_ = sv[j]
                            e = [rk(a), emb.rv(b_)]
                            w = [rk(x) for x in t.keys(*args)][j]
                            if e[0] != w or e[1] != vs[cs.index(w)]:
                                add(dict(base, kind='index', q=q, idx=[[j, 'items-seq-mismatch']]))
                        except IndexError:
                            pass
                except Exception as e:
                    add(dict(base, kind='len', q=q, got='exc:' + type(e).__name__))
        # byValue(min): (value, key) pairs with value >= min, "normalized" by min, descending.  The values of the tree are
        # replaced first (replacing changes no shape): small numbers for the numeric value families (exact divisions),
        # the embedding's values for object / fs values
        if not is_set and hasattr(t, 'byValue') and cs:
            vc = fam[1]
            if vc in 'ILUQ':
                pool, mins, scale, norm = [1, 2, 3, 6, 7, 12], ([0, 1, 2, 3, 5] + ([-1] if vc in 'IL' else [])), 1, 1
                real, unreal = (lambda x: x), (lambda x: x if isinstance(x, int) and not isinstance(x, bool) else 'v?%r' % (x,))
            elif vc == 'F':
                pool, mins, scale, norm = [2, 4, 6, 12, 24], [2, 4, 8, 0, -4], 4, 1
                real, unreal = (lambda x: x / 4.0), (lambda x: int(x * 4) if isinstance(x, float) and x * 4 == int(x * 4) else 'v?%r' % (x,))
            else:
                pool, mins, scale, norm = list(range(1, len(emb.vals) + 1)), list(range(1, len(emb.vals) + 1)), 1, 0
                real, unreal = emb.val, emb.rv
            if impl == 'py':
                norm = 0            # (recorded finding: the Python implementation does not normalize)
            nvs = []
            for r_ in cs:
                v_ = pool[(r_ * 3 + r_ // 2) % len(pool)]
                t[emb.key(r_)] = real(v_)
                nvs.append(v_)
            for mn in mins:
                try:
                    res = t.byValue(real(mn))
                    got = [[unreal(v_), rk(k_)] for v_, k_ in list(res)]
                    if impl == 'c' and type(res) is not list:
                        got = 'type:' + type(res).__name__
                except Exception as e:
                    got = 'exc:' + type(e).__name__
                counts['calls'] += 1
                counts['byvalue'] = counts.get('byvalue', 0) + 1
                add(dict(cs=cs, vs=vs, kind='byvalue', nvs=nvs, min=mn, scale=scale, norm=norm, got=got))
    embed.restore_sizes(old)
    json.dump(dict(records=list(recs.values()), counts=counts), open(sys.argv[2], 'w'))


if __name__ == '__main__':
    main()
