"""C11 conformance: multiunion of the real integer-key families.

usage: python -m harness.workers.multi_worker JOB.json RESULT.json"""
import json, random, sys


def keyclass(fam, rng, extra):
    """distinct keys of the family: both extremes, every byte boundary with 0x7f/0x80/0xff
    patterns in both signs, small values, random ones; sorted = the rank embedding"""
    c = fam[0]
    bits = 64 if c in 'LQ' else 32
    signed = c in 'IL'
    lo, hi = (-(1 << (bits - 1)), (1 << (bits - 1)) - 1) if signed else (0, (1 << bits) - 1)
    ks = {lo, lo + 1, hi - 1, hi, 0, 1, 2, 3, 5}
    for b in range(0, bits, 8):
        for pat in (0x7f, 0x80, 0xff, 0x01):
            v = pat << b
            for x in (v, v + 5, v - 1, -v, -v - 5, (1 << (bits - 1)) + v, (v | 5)):
                if lo <= x <= hi:
                    ks.add(x)
    while len(ks) < extra:
        ks.add(rng.randint(lo, hi))
    return sorted(ks)


class OldSeq:
    def __init__(self, xs):
        self.xs = list(xs)

    def __getitem__(self, i):
        return self.xs[i]


def main():
    job = json.load(open(sys.argv[1]))
    from harness import embed
    fam, impl = job['fam'], job['impl']
    mod = embed.module_of(fam)
    suf = 'Py' if impl == 'py' else ''
    BT, BU, TS, SE = embed.classes(fam, impl)
    mu = getattr(mod, 'multiunion' + suf)
    rng = random.Random(job['seed'])
    K = keyclass(fam, rng, job.get('nkeys', 2400))
    rank = {k: i + 1 for i, k in enumerate(K)}
    vals = embed.Embedding(fam, 'mid').vals
    recs = []
    for total in job['totals']:
        for rep in range(job['reps']):
            # split `total` elements (with repeats) over a random number of operands of random kinds
            nops = rng.choice([0, 1, 2, 3, 5, 8]) if total else rng.choice([0, 1, 2])
            picks = [rng.randint(1, len(K)) for _ in range(total)]
            if rep % 3 == 0 and total > 10:
                # make the top-bit mix certain: both ends of the rank range
                picks[:10] = list(range(1, 6)) + list(range(len(K) - 4, len(K) + 1))
            cuts = sorted(rng.randint(0, total) for _ in range(max(nops - 1, 0)))
            parts = [picks[a:b] for a, b in zip([0] + cuts, cuts + [total])] if nops else []
            if rep == 1 and total >= 2:
                # sorted runs that meet at their ends, overlap inside, repeat, and come in descending order
                base = sorted(set(picks))
                n3 = max(1, len(base) // 3)
                parts = [base[:n3 + 1], base[n3:2 * n3 + 1], base[2 * n3:], base[:n3 + 1], base[n3 - 1:n3 + 2][::1],
                         base[2 * n3:], base[:1]]
            ops_model, ops_real = [], []
            for pi_, p in enumerate(parts):
                kind = rng.choice(['Set', 'TreeSet', 'Bucket', 'BTree', 'list', 'tuple', 'int', 'set', 'iter', 'oldseq', 'gen', 'keysview', 'valuesview', 'dictkeys', 'itemsless'])
                if rep == 1 and total >= 2:
                    kind = ['Set', 'Set', 'Bucket', 'TreeSet', 'Set', 'BTree', 'Set'][pi_ % 7]
                keys = [K[r - 1] for r in p]
                if kind == 'int':
                    if not p:
                        continue
                    ops_model.append([p[0]])
                    ops_real.append(keys[0])
                    p = p[1:]
                    keys = keys[1:]
                    kind = 'list'
                ops_model.append(list(p))
                if kind == 'Set':
                    ops_real.append(SE(keys))
                elif kind == 'TreeSet':
                    ops_real.append(TS(keys))
                elif kind == 'Bucket':
                    ops_real.append(BU({k: vals[0] for k in keys}))
                elif kind == 'BTree':
                    ops_real.append(BT({k: vals[0] for k in keys}))
                elif kind == 'tuple':
                    ops_real.append(tuple(keys))
                elif kind == 'set':
                    ops_real.append(set(keys))
                elif kind == 'oldseq':
                    ops_real.append(OldSeq(keys))             # iterable through the old sequence protocol only
                elif kind == 'gen':
                    ops_real.append((k for k in list(keys)))
                elif kind == 'keysview':
                    ops_real.append(TS(keys).keys())
                elif kind == 'valuesview' and (fam[1] == fam[0] or fam[1] == 'O') and len(keys) <= len(K):
                    # the values() view of a mapping of the family: integers of the key type in no particular order, repeated
                    ops_real.append(BT({K[j]: k for j, k in enumerate(keys)}).values())
                elif kind == 'dictkeys':
                    ops_real.append({k: None for k in keys}.keys())
                elif kind == 'itemsless':
                    ops_real.append(frozenset(keys))
                elif kind == 'iter':
                    ops_real.append([k for k in keys])        # multiunion wants a sequence of iterables
                else:
                    ops_real.append(keys)
            if total >= 1:
                # bare integers at both ends of the family's range (and next to them), among the other operands
                for r_ in (len(K), 1, len(K) - 1, 2, len(K)):
                    at = rng.randint(0, len(ops_model))
                    ops_model.insert(at, [r_])
                    ops_real.insert(at, K[r_ - 1])
            if job.get('ghost'):
                # C05: the operands that are containers live in the data manager, stored and evicted (ghosts) at the call
                from harness import minijar
                gjar = minijar.Jar(minijar.Store())
                for o in ops_real:
                    if hasattr(o, '_p_jar') and o._p_jar is None:
                        gjar.add(o)
                gjar.commit()
                gjar.cache.minimize()
            snap = [list(o.keys()) if hasattr(o, '_p_jar') else None for o in ops_real]
            try:
                res = mu(ops_real)
                kindname = 'Set' if type(res) is SE else type(res).__name__
                if any(sn is not None and list(o.keys()) != sn for o, sn in zip(ops_real, snap)):
                    kindname = 'operand-changed'        # (the union is a new set: no operand is touched)
                elif any(res is o for o in ops_real):
                    kindname = 'result-is-an-operand'
                got = [rank.get(k, 'key?%r' % (k,)) for k in res]
                probes = [rng.randint(1, len(K)) for _ in range(12)] + (got[:3] if got and isinstance(got[0], int) else [])
                probe = [[r, 1 if K[r - 1] in res else 0] for r in probes if isinstance(r, int)]
                lo, hi = sorted((rng.randint(1, len(K)), rng.randint(1, len(K))))
                rg = [rank.get(k, 'key?') for k in res.keys(K[lo - 1], K[hi - 1])]
                recs.append(dict(ops=ops_model, kind=kindname, got=got, len=len(res), probe=probe, lo=lo, hi=hi,
                                 range=rg, total=total))
            except Exception as e:
                recs.append(dict(ops=ops_model, kind='exc:' + type(e).__name__, got=[], len=0, probe=[], lo=1, hi=1,
                                 range=[], total=total))
    # ---- distinct keys that differ in b byte positions only (b = 2 .. width): the number of radix passes
    #      actually executed - and with it the array the sorted data ends up in - depends on b; no duplicate anywhere
    width = 4 if fam[0] in 'IU' else 8
    for b in range(2, width + 1):
        for variant in ('low', 'high'):
            if b == width and variant == 'high':
                continue
            pos = list(range(b)) if variant == 'low' else list(range(width - b - (1 if fam[0] in 'IL' else 0), width - (1 if fam[0] in 'IL' else 0)))
            if min(pos) < 0:
                continue
            const = rng.randint(1, 100)
            ks = set()
            while len(ks) < 900:
                x = 0
                for p in range(width):
                    byte = rng.randint(0, 255) if p in pos else (const + p) % 100
                    x |= byte << (8 * p)
                if fam[0] in 'IL' and x >= 1 << (8 * width - 1):
                    x -= 1 << (8 * width)
                ks.add(x)
            KK = sorted(ks)
            rk = {k: i + 1 for i, k in enumerate(KK)}
            order = list(KK)
            rng.shuffle(order)
            cut = rng.randint(1, len(order) - 1)
            parts = [order[:cut], order[cut:]]
            ops_real = [SE(parts[0]), list(parts[1])] if b % 2 else [list(parts[0]), TS(parts[1])]
            try:
                res = mu(ops_real)
                kindname = 'Set' if type(res) is SE else type(res).__name__
                got = [rk.get(k, 'key?%r' % (k,)) for k in res]
                probes = [rng.randint(1, len(KK)) for _ in range(12)]
                probe = [[r, 1 if KK[r - 1] in res else 0] for r in probes]
                lo, hi = sorted((rng.randint(1, len(KK)), rng.randint(1, len(KK))))
                rg = [rk.get(k, 'key?') for k in res.keys(KK[lo - 1], KK[hi - 1])]
                recs.append(dict(ops=[[rk[k] for k in p] for p in parts], kind=kindname, got=got, len=len(res), probe=probe,
                                 lo=lo, hi=hi, range=rg, total=len(order)))
            except Exception as e:
                recs.append(dict(ops=[], kind='exc:' + type(e).__name__, got=[], len=0, probe=[], lo=1, hi=1, range=[], total=len(order)))
    json.dump(dict(records=recs), open(sys.argv[2], 'w'))


if __name__ == '__main__':
    main()
