"""C09 conformance: the same seeded random history of public calls on the C
and on the Python container of one family and kind, side by side.  After every
call: result / exception class, ordered contents, node structure (state tree)
and pickle must be equal.  The C-side events are returned in the TraceMap
vocabulary (validated by TLC against the sorted map).

usage: python -m harness.workers.pair_worker JOB.json RESULT.json"""
import json, random, sys, pickle


def main():
    job = json.load(open(sys.argv[1]))
    from harness import embed, api
    fam, kindname = job['fam'], job['kind']
    emb = embed.Embedding(fam, job.get('emb', 'mid'))
    C, PY = embed.classes(fam, 'c'), embed.classes(fam, 'py')
    ki = dict(BTree=0, Bucket=1, TreeSet=2, Set=3)[kindname]
    is_set = ki >= 2
    leaf, internal = job.get('leaf'), job.get('internal')
    old = embed.set_sizes([C[0], C[2], PY[0], PY[2]], leaf, internal) if leaf else None
    nk = job['nkeys']
    rng = random.Random(job['seed'])
    sent = object()
    traces, diffs, counts = [], [], dict(calls=0)

    def sig(x):
        if x is None:
            return None
        if hasattr(x, '__getstate__') and hasattr(x, '_p_oid'):
            return ['node', 'tree' if hasattr(x, '_firstbucket') else 'leaf', sig(x.__getstate__())]
        if isinstance(x, tuple):
            return [sig(y) for y in x]
        return '%s:%r' % (type(x).__name__, x)

    def do(t, op, k, v, ks, bad):
        """one call; returns the TraceMap-style result"""
        rk, rv = emb.key(k), emb.val(v)
        try:
            if is_set:
                if op == 'insert':
                    return ['v', int(t.add(rk))]
                if op == 'setitem':
                    t.insert(rk)
                    return ['ok']
                if op == 'delitem':
                    t.remove(rk)
                    return ['ok']
                if op == 'discard':
                    t.discard(rk)
                    return ['ok']
                if op == 'popitem':
                    return ['kv', emb.rk(t.pop()), 1]
                if op in ('ior', 'isub', 'iand', 'ixor', 'update'):
                    arg = [emb.key(x[0] if isinstance(x, list) else x) for x in ks]
                    arg = (C[3] if t.__class__.__name__.endswith('Py') is False else PY[3])(arg) if bad == 'asset' else arg
                    if op == 'ior':
                        t |= arg
                    elif op == 'isub':
                        t -= arg
                    elif op == 'iand':
                        t &= arg
                    elif op == 'ixor':
                        t ^= arg
                    else:
                        t.update(arg)
                    return ['ok']
            else:
                if op == 'setitem':
                    t[rk] = rv
                    return ['ok']
                if op == 'insert':
                    if hasattr(t, 'insert'):
                        return ['v', int(t.insert(rk, rv))]
                    had = rk in t
                    t.setdefault(rk, rv)
                    return ['v', 0 if had else 1]
                if op == 'setdefault':
                    return ['v', emb.rv(t.setdefault(rk, rv))]
                if op == 'delitem':
                    del t[rk]
                    return ['ok']
                if op == 'pop':
                    return ['v', emb.rv(t.pop(rk))]
                if op == 'popdefault':
                    x = t.pop(rk, sent)
                    return ['v', v if x is sent else emb.rv(x)]
                if op == 'popitem':
                    a, b = t.popitem()
                    return ['kv', emb.rk(a), emb.rv(b)]
                if op == 'get':
                    x = t.get(rk, sent)
                    return ['v', v if x is sent else emb.rv(x)]
                if op == 'getitem':
                    return ['v', emb.rv(t[rk])]
                if op == 'update':
                    t.update([(emb.key(a), emb.val(b)) for a, b in ks])
                    return ['ok']
                if op == 'badget':
                    x = t.get(api.bad_key(fam), sent)
                    return ['v', v if x is sent else 'found']
                if op == 'badgetitem':
                    return ['v', emb.rv(t[api.bad_key(fam)])]
            if op == 'contains':
                return ['v', 1 if rk in t else 0]
            if op == 'len':
                return ['v', len(t)]
            if op == 'bool':
                return ['v', 1 if t else 0]
            if op == 'clear':
                t.clear()
                return ['ok']
            if op == 'badwrite':
                if is_set:
                    t.add(api.bad_key(fam))
                else:
                    bv = api.bad_val(fam)
                    if bv is api._SENT or bad == 'key':
                        t[api.bad_key(fam)] = rv
                    else:
                        t[rk] = bv
                return ['ok']
            if op == 'badcontains':
                return ['v', 1 if api.bad_key(fam) in t else 0]
            # read-only extras outside the TraceMap vocabulary (compared C vs Python only)
            if op == 'x-range':
                lo, hi, xlo, xhi = ks
                kw = dict(min=None if lo == 0 else emb.key(lo), max=None if hi == 0 else emb.key(hi), excludemin=xlo, excludemax=xhi)
                return ['x', [emb.rk(x) for x in t.keys(**kw)]]
            if op == 'x-minmax':
                return ['x', emb.rk(t.minKey(rk)), emb.rk(t.maxKey(rk))]
            if op == 'x-byvalue':
                # (the numeric value of the bound is the rank itself: small numbers, exact divisions)
                res = t.byValue(emb.val(v))
                pairs = [[x if isinstance(x, (int, float)) and not isinstance(x, bool) else emb.rv(x), emb.rk(y)] for x, y in list(res)]
                return ['x', 'list' if isinstance(res, list) else 'not-a-list', pairs]
            if op == 'x-index':
                # one lazy sequence indexed several times, so that its search finger moves both ways over the leaves
                s = t.keys() if is_set or v % 2 else t.items()
                n_ = max(1, len(s))
                out_ = []
                for j in (k % n_, n_ - 1, (k * 7) % n_, 0, (k * 3 + 1) % n_, -1, (k * 5) % n_, 1 % n_, -n_):
                    x = s[j]
                    out_.append(emb.rk(x if is_set or v % 2 else x[0]))
                return ['x'] + out_
        except KeyError:
            return ['KeyError']
        except TypeError:
            return ['TypeError']
        except ValueError:
            return ['ValueError']
        except IndexError:
            return ['IndexError']
        except Exception as e:
            return ['exc:' + type(e).__name__]
        raise ValueError(op)

    ops_set = ['insert', 'insert', 'insert', 'setitem', 'delitem', 'delitem', 'discard', 'popitem', 'contains', 'len', 'bool',
               'ior', 'isub', 'iand', 'ixor', 'update', 'clear', 'badwrite', 'badcontains', 'x-range', 'x-minmax', 'x-index']
    ops_map = ['setitem', 'setitem', 'setitem', 'insert', 'setdefault', 'delitem', 'delitem', 'pop', 'popdefault', 'popitem', 'get',
               'getitem', 'contains', 'len', 'bool', 'update', 'clear', 'badwrite', 'badget', 'badgetitem', 'badcontains',
               'x-range', 'x-minmax', 'x-index', 'x-byvalue']
    for tno in range(job['ntraces']):
        tc, tp = C[ki](), PY[ki]()
        tr = []
        for step in range(job['length']):
            op = rng.choice(ops_set if is_set else ops_map)
            if op == 'clear' and rng.random() < 0.7:
                op = 'insert' if is_set else 'setitem'
            k, v = rng.randint(1, nk), (1 if is_set else rng.randint(1, 3))
            ks, bad = [], rng.choice(['key', 'val', 'asset', 'list'])
            if op in ('ior', 'isub', 'iand', 'ixor'):
                ks = sorted(set(rng.randint(1, nk) for _ in range(rng.randint(0, 4))))
            elif op == 'update':
                if is_set:
                    ks = [[x, 1] for x in sorted(set(rng.randint(1, nk) for _ in range(rng.randint(0, 4))))]
                else:
                    ks = [[rng.randint(1, nk), rng.randint(1, 3)] for _ in range(rng.randint(0, 4))]
            elif op == 'x-range':
                ks = [rng.randint(0, nk), rng.randint(0, nk), rng.random() < 0.4, rng.random() < 0.4]
            rc = do(tc, op, k, v, ks, bad)
            rp = do(tp, op, k, v, ks, bad)
            counts['calls'] += 1
            ev = dict(op=op, k=k, v=v, ks=ks)
            if rc != rp:
                diffs.append(dict(event=ev, what='result', c=rc, py=rp))
            kc = [emb.rk(x) for x in tc.keys()]
            kp = [emb.rk(x) for x in tp.keys()]
            vc = [1] * len(kc) if is_set else [emb.rv(x) for x in tc.values()]
            vp = [1] * len(kp) if is_set else [emb.rv(x) for x in tp.values()]
            if (kc, vc) != (kp, vp):
                diffs.append(dict(event=ev, what='contents', c=[kc, vc], py=[kp, vp]))
                break
            sc, sp = sig(tc), sig(tp)
            if sc != sp:
                diffs.append(dict(event=ev, what='shape', c=sc, py=sp))
                if op == 'iand':
                    # (recorded finding D39) go on from equal shapes: both rebuilt from their equal contents
                    tc, tp = C[ki](list(tc.keys())), PY[ki](list(tp.keys()))
                    if sig(tc) != sig(tp):
                        break
                else:
                    break
            if step % 5 == 0 and pickle.dumps(tc, 2) != pickle.dumps(tp, 2):
                diffs.append(dict(event=ev, what='pickle', c='', py=''))
            if not op.startswith('x-'):
                tr.append(dict(op=op, k=k, v=v, ks=ks, res=rc, keys=kc, vals=vc))
            if len(diffs) > 20:
                break
        traces.append(tr)
    if ki in (0, 2) and job.get('loose_witness', True):
        # a tree with a loose separator (BTreeImpl!Loosen: what an older database may hold), then a split of the interior
        # node that carries it: the C code hands the stored separator up, the Python code the smallest key of the new
        # sibling - equal contents, two different shapes (named deviation Py_GrowSepIsMinKey, finding D52)
        sz = embed.set_sizes([C[0], C[2], PY[0], PY[2]], 2, 2)
        ap = api.apply_set if is_set else api.apply_map
        hist = [dict(op='setitem', k=r, v=1) for r in (1, 2, 3, 4, 5)] + [dict(op='delitem', k=1, v=0), dict(op='delitem', k=2, v=0),
                dict(op='setitem', k=1, v=1), dict(op='delitem', k=3, v=0), dict(op='loosen', k=2, v=2, p=[1]), dict(op='setitem', k=3, v=1)]
        tc, tp = C[ki](), PY[ki]()
        try:
            for a in hist:
                if a is hist[-1]:
                    # before the split: every bounded query on the two trees with the loose separator, side by side
                    def q(t, name, r):
                        try:
                            x = getattr(t, name)(emb.key(r))
                            return emb.rk(x)
                        except ValueError:
                            return 'ValueError'
                    def rng_(t, **kw):
                        return [emb.rk(x) for x in t.keys(**kw)]
                    for r in range(1, 7):
                        for name in ('minKey', 'maxKey'):
                            if q(tc, name, r) != q(tp, name, r):
                                diffs.append(dict(event=dict(op='loose-' + name, k=r), what='result', c=q(tc, name, r), py=q(tp, name, r)))
                        for kw in (dict(min=emb.key(r)), dict(max=emb.key(r)), dict(min=emb.key(r), excludemin=True), dict(max=emb.key(r), excludemax=True)):
                            if rng_(tc, **kw) != rng_(tp, **kw):
                                diffs.append(dict(event=dict(op='loose-keys', k=r), what='result', c=rng_(tc, **kw), py=rng_(tp, **kw)))
                        if (emb.key(r) in tc) != (emb.key(r) in tp):
                            diffs.append(dict(event=dict(op='loose-contains', k=r), what='result', c=emb.key(r) in tc, py=emb.key(r) in tp))
                        counts['calls'] += 7
                ap(tc, emb, a, 0)
                ap(tp, emb, a, 0)
            same_items = [emb.rk(x) for x in tc.keys()] == [emb.rk(x) for x in tp.keys()]
            tc._check()
            tp._check()
            if not same_items:
                diffs.append(dict(event=dict(op='loose-split'), what='contents', c=[emb.rk(x) for x in tc.keys()], py=[emb.rk(x) for x in tp.keys()]))
            elif sig(tc) != sig(tp):
                diffs.append(dict(event=dict(op='loose-split'), what='loose-split-shape', c=sig(tc), py=sig(tp)))
        except Exception as e:
            diffs.append(dict(event=dict(op='loose-split'), what='loose-split-raises', c=repr(e), py=''))
        counts['calls'] += len(hist)
        embed.restore_sizes(sz)
        if old:
            embed.set_sizes([C[0], C[2], PY[0], PY[2]], leaf, internal)
    if old:
        embed.restore_sizes(old)
    json.dump(dict(traces=traces, diffs=diffs[:30], counts=counts), open(sys.argv[2], 'w'))


if __name__ == '__main__':
    main()
