"""C17 conformance, exact (C implementation, hook build): the allocation-granular specification Alloc.tla
predicts, for every call and every fault index F, how many BTree_Malloc/BTree_Realloc calls the call
makes before it returns, whether it raises MemoryError, and the exact node structure it leaves behind
(including leaves and nodes left too long by a failed split, a root left with one over-long child by a
failed root split, and an empty tree restored by the unwind of a failed first insert).  Capacities
(Bucket.size / BTree.size) are hidden state of the specification; a wrong capacity shows as a wrong
allocation count in a later call.

mode 'dump'        every transition TLC explored for a bounded instance (Alloc!ADump): the source state is
                   reached along TLC's own path - which contains failed calls - and every step is compared.
mode 'behaviours'  behaviours written by `tlc -simulate` from AllocSim (deep trees, several failed calls).

After every failed call the checkers must accept the tree and all lookups must work (no freed or unowned
memory is referenced: the sanitizer build runs the same jobs).

usage: python -m harness.workers.alloc_worker JOB.json RESULT.json"""
import json, sys, importlib

INIT = {'t': 'I', 'kids': [], 'seps': [], 'fb': 0, 'cap': {'sz': 0, 'bk': 0, 'bv': 0}}


def strip(p):
    if p['t'] == 'L':
        return {'t': 'L', 'ks': p['ks'], 'vs': p['vs'], 'nx': p['nx']}
    return {'t': 'I', 'kids': [strip(c) for c in p['kids']], 'seps': p['seps'], 'fb': p['fb']}


def main():
    job = json.load(open(sys.argv[1]))
    from harness import embed, proj as P, graph
    import BTrees.check as BC
    fam, is_set = job['fam'], job['is_set']
    emb = embed.Embedding(fam, 'mid')
    BT, BU, TS, SE = embed.classes(fam, 'c')
    cls = TS if is_set else BT
    cmod = importlib.import_module('BTrees._%sBTree' % fam)
    arm, allocs = cmod._verif_arm, cmod._verif_allocs
    old = embed.set_sizes([BT, TS], job['leaf'], job['internal'])
    mism, counts = [], dict(calls=0, faulted_calls=0, transitions=0, behaviours=0, overfull_states=0, max_allocs=0)

    def call(t, a, F):
        """one model action on the real tree with the F-th allocation failing; (outcome, allocations attempted)"""
        k = emb.key(a['k']) if a['k'] else None
        arm(F)
        try:
            if a['op'] == 'setitem':
                if is_set:
                    t.add(k)
                else:
                    t[k] = emb.val(a['v'])
            elif a['op'] == 'insert':
                if is_set:
                    t.insert(k)
                else:
                    t.insert(k, emb.val(a['v']))
            elif a['op'] == 'delitem':
                if is_set:
                    t.remove(k)
                else:
                    del t[k]
            elif a['op'] == 'clear':
                t.clear()
            else:
                raise ValueError(a['op'])
            out = 'ok'
        except MemoryError:
            out = 'MemoryError'
        except KeyError:
            out = 'KeyError'
        except Exception as e:
            out = 'exc:%s' % type(e).__name__
        finally:
            n = allocs()
            arm(0)
        return out, n

    def expected_out(st):
        if st['err']:
            return 'MemoryError'
        r = st.get('res')
        if r and r[0] == 'KeyError':
            return 'KeyError'
        return 'ok'

    def usable(t, want):
        """the container answers like the model contents and both checkers accept it"""
        try:
            t._check()
            BC.check(t)
        except Exception as e:
            return 'checker: %s: %s' % (type(e).__name__, str(e)[:80])
        ks, vs = P.flatten(want)
        got = [emb.rk(x) for x in t.keys()]
        if got != ks:
            return 'keys() %s, model %s' % (got, ks)
        for r in ks:
            if emb.key(r) not in t:
                return 'stored key %s not found' % r
        if len(t) != len(ks):
            return 'len %s' % len(t)
        return None

    def step(t, st, where):
        """apply one specified step; compare outcome, allocation count and exact structure"""
        out, n = call(t, st['act'], st['F'])
        counts['calls'] += 1
        counts['max_allocs'] = max(counts['max_allocs'], n)
        if st['err']:
            counts['faulted_calls'] += 1
        want = strip(st['to'])
        if is_set:
            pass
        bad = None
        if out != expected_out(st):
            bad = dict(kind='outcome', model=expected_out(st), real=out)
        elif n != st['n']:
            bad = dict(kind='allocation-count', model=st['n'], real=n)
        else:
            real = P.proj(t, emb, is_set)
            if real != want:
                bad = dict(kind='structure-after-fault' if st['err'] else 'structure', model=want, real=real)
            elif st['err']:
                u = usable(t, want)
                if u:
                    bad = dict(kind='unusable-after-fault', real=u)
        if bad:
            mism.append(dict(where(), **bad))
            return False
        return True

    if job['mode'] == 'dump':
        with open(job['dump']) as fh:
            payloads = json.load(fh)['payloads']
        g = graph.Graph(payloads, init=INIT)
        verified = set()
        for ti in job['indices']:
            tr = payloads[ti]
            path = g.path_to(tr['from'])
            t = cls()
            ok = True
            for j, pi in enumerate(path + [ti]):
                st = payloads[pi]
                hist = [dict(payloads[q]['act'], F=payloads[q]['F']) for q in (path + [ti])[:j + 1]]
                ok = step(t, st, lambda: dict(fam=fam, is_set=is_set, sizes=[job['leaf'], job['internal']], mode='dump', history=hist,
                                              act=st['act'], fail_at=st['F']))
                if not ok:
                    break
            counts['transitions'] += 1
            if ok and any(over(c, job) for c in [strip(tr['to'])]):
                counts['overfull_states'] += 1
            del t
            if len(mism) > 30:
                break
    else:
        with open(job['dump']) as fh:
            behs = json.load(fh)['payloads']
        for bi in range(job['part'], len(behs), job['nparts']):
            t = cls()
            hist = []
            for st in behs[bi]:
                hist.append(dict(st['act'], F=st['F']))
                if not step(t, st, lambda: dict(fam=fam, is_set=is_set, sizes=[job['leaf'], job['internal']], mode='behaviour', behaviour=bi,
                                                history=list(hist), act=st['act'], fail_at=st['F'])):
                    break
                if over(strip(st['to']), job):
                    counts['overfull_states'] += 1
            counts['behaviours'] += 1
            del t
            if len(mism) > 30:
                break
    arm(0)
    embed.restore_sizes(old)
    json.dump(dict(counts=counts, mismatches=mism[:40]), open(sys.argv[2], 'w'))


def over(p, job, root=True):
    """does the structure contain a node longer than its size bound (only a failed split leaves one)"""
    if p['t'] == 'L':
        return len(p['ks']) > job['leaf']
    lim = 2 * job['internal'] - 1 if root else job['internal']
    return len(p['kids']) > lim or any(over(c, job, False) for c in p['kids'])


if __name__ == '__main__':
    main()
