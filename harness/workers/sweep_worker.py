"""C09 conformance: the argument sweep, C and Python side by side.

For one family: every kind (BTree, Bucket, TreeSet, Set) x three shapes (empty,
one leaf, multi-level) x every call kind x every argument class (the classes of
the C13 sweep plus an __index__ object): the same call on the C and on the
Python container; recorded per call: outcome class of each, contents unchanged
or not, and whether result, contents, shape (state tree) and pickle agree.

usage: python -m harness.workers.sweep_worker JOB.json RESULT.json"""
import operator, json, sys, pickle


class Idx:
    def __init__(self, v):
        self.v = v

    def __index__(self):
        return self.v


def main():
    job = json.load(open(sys.argv[1]))
    from harness import embed
    from harness.workers.domain_worker import classes_for
    fam = job['fam']
    emb = embed.Embedding(fam, 'mid')
    C = embed.classes(fam, 'c')
    PY = embed.classes(fam, 'py')
    old = embed.set_sizes([C[0], C[2], PY[0], PY[2]], 2, 2)
    kcode, vcode = fam[0], fam[1]
    recs = []
    sent = object()
    goodv = emb.val(1)
    shapes = {'empty': [], 'leaf': [3, 6], 'deep': [1, 2, 3, 5, 6, 8, 9, 11, 12]}

    def build(cls, is_set, ranks):
        t = cls()
        for r in ranks:
            if is_set:
                t.add(emb.key(r))
            else:
                t[emb.key(r)] = goodv
        return t

    def sig(x):
        """structural signature of a state (children walked, keys and values by repr and type)"""
        if x is None:
            return None
        if hasattr(x, '__getstate__') and hasattr(x, '_p_oid'):
            return ['node', 'tree' if hasattr(x, '_firstbucket') else 'leaf', sig(x.__getstate__())]
        if isinstance(x, tuple):
            return [sig(y) for y in x]
        return '%s:%r' % (type(x).__name__, x)

    def norm(r):
        if r is sent:
            return 'default'
        if isinstance(r, (list, tuple)):
            return [norm(y) for y in r]
        if hasattr(r, '__iter__') and not isinstance(r, (str, bytes)):
            try:
                return [norm(y) for y in r]
            except Exception as e:
                return 'iter-raises:' + type(e).__name__
        return '%s:%r' % (type(r).__name__, r)

    def contents(t, is_set):
        try:
            return [norm(k) for k in t.keys()] if is_set else [[norm(k), norm(v)] for k, v in t.items()]
        except Exception as e:
            return 'raises:' + type(e).__name__

    def run(f, t, cls_):
        try:
            r = f(t)
            return 'ok', r
        except KeyError:
            return 'KeyError', None
        except TypeError:
            return 'TypeError', None
        except ValueError:
            return 'ValueError', None
        except IndexError:
            return 'IndexError', None
        except Exception as e:
            return 'exc:' + type(e).__name__, None

    keycalls_map = [
        ('get', 'lookup', lambda t, x: 'present' if t.get(x, sent) is not sent else 'absent'),
        ('getitem', 'lookup', lambda t, x: ('present', t[x])[0]),
        ('contains', 'lookup', lambda t, x: 'present' if x in t else 'absent'),
        ('has_key', 'lookup', lambda t, x: 'present' if t.has_key(x) else 'absent'),
        ('pop_default', 'delete', lambda t, x: (t.pop(x, sent), None)[1]),
        ('delitem', 'delete', lambda t, x: t.__delitem__(x)),
        ('pop', 'delete', lambda t, x: (t.pop(x), None)[1]),
        ('setitem', 'write', lambda t, x: t.__setitem__(x, goodv)),
        ('setdefault', 'write', lambda t, x: (t.setdefault(x, goodv), None)[1]),
        ('update_pairs', 'write', lambda t, x: t.update([(x, goodv)])),
        ('update_dict', 'write', lambda t, x: t.update({x: goodv})),
        ('insert', 'write', lambda t, x: (t.insert(x, goodv), None)[1]),
        ('minKey', 'bound', lambda t, x: t.minKey(x)),
        ('maxKey', 'bound', lambda t, x: t.maxKey(x)),
        ('keys_min', 'bound', lambda t, x: list(t.keys(x))),
        ('keys_max', 'bound', lambda t, x: list(t.keys(max=x))),
        ('values_min_excl', 'bound', lambda t, x: list(t.values(min=x, excludemin=True))),
        ('items_both', 'bound', lambda t, x: list(t.items(x, x))),
        ('iterkeys_min', 'bound', lambda t, x: list(t.iterkeys(x))),
    ]
    keycalls_set = [
        ('contains', 'lookup', lambda t, x: 'present' if x in t else 'absent'),
        ('has_key', 'lookup', lambda t, x: 'present' if t.has_key(x) else 'absent'),
        ('remove', 'delete', lambda t, x: t.remove(x)),
        ('discard', 'discard', lambda t, x: t.discard(x)),
        ('add', 'write', lambda t, x: (t.add(x), None)[1]),
        ('insert', 'write', lambda t, x: (t.insert(x), None)[1]),
        ('update', 'write', lambda t, x: t.update([x])),
        ('ior', 'write', lambda t, x: (operator.ior(t, [x]), None)[1]),
        ('isub', 'filter', lambda t, x: (operator.isub(t, [x]), None)[1]),
        ('iand', 'filter', lambda t, x: (operator.iand(t, list(t.keys()) + [x]), None)[1]),
        ('ixor', 'write', lambda t, x: (operator.ixor(t, [x]), None)[1]),
        ('minKey', 'bound', lambda t, x: t.minKey(x)),
        ('maxKey', 'bound', lambda t, x: t.maxKey(x)),
        ('keys_min', 'bound', lambda t, x: list(t.keys(x))),
        ('keys_max_excl', 'bound', lambda t, x: list(t.keys(max=x, excludemax=True))),
        ('isdisjoint', 'lookup', lambda t, x: 'absent' if t.isdisjoint([x]) else 'present'),
    ]
    valcalls = [
        ('setitem_new', 'write', lambda t, x: t.__setitem__(emb.key(4), x)),
        ('setitem_replace', 'write', lambda t, x: t.__setitem__(emb.key(3), x)),
        ('setdefault_new', 'write', lambda t, x: (t.setdefault(emb.key(4), x), None)[1]),
        ('setdefault_present', 'write', lambda t, x: (t.setdefault(emb.key(3), x), None)[1]),
        ('insert_new', 'write', lambda t, x: (t.insert(emb.key(4), x), None)[1]),
        ('insert_present', 'write', lambda t, x: (t.insert(emb.key(3), x), None)[1]),
        ('update_dict', 'write', lambda t, x: t.update({emb.key(4): x})),
        ('get_default', 'lookup', lambda t, x: 'absent' if t.get(emb.key(4), x) is x else 'present'),
        ('pop_default', 'lookup', lambda t, x: 'absent' if t.pop(emb.key(4), x) is x else 'present'),
    ]
    noarg_map = [('minKey()', 'noarg', lambda t, x: t.minKey()), ('maxKey()', 'noarg', lambda t, x: t.maxKey()),
                 ('keys()', 'noarg', lambda t, x: list(t.keys())), ('values()', 'noarg', lambda t, x: list(t.values())),
                 ('items()', 'noarg', lambda t, x: list(t.items())), ('len', 'noarg', lambda t, x: len(t)),
                 ('bool', 'noarg', lambda t, x: bool(t)), ('iter', 'noarg', lambda t, x: list(t)),
                 ('popitem', 'noarg', lambda t, x: t.popitem()), ('clear', 'noarg', lambda t, x: t.clear()),
                 ('keys(excl)', 'noarg', lambda t, x: list(t.keys(excludemin=True, excludemax=True))),
                 ('keys()[0]', 'noarg', lambda t, x: t.keys()[0]), ('keys()[-1]', 'noarg', lambda t, x: t.keys()[-1]),
                 ('getstate', 'noarg', lambda t, x: sig(t.__getstate__())), ('copy', 'noarg', lambda t, x: sig(type(t)(t).__getstate__()))]
    noarg_set = [c for c in noarg_map if c[0] not in ('values()', 'items()', 'popitem')] + [('pop()', 'noarg', lambda t, x: t.pop())]
    kinds = (('BTree', 0, False), ('Bucket', 1, False), ('TreeSet', 2, True), ('Set', 3, True))
    keyclasses = classes_for('key', kcode) + [(dict(t='index'), Idx(7))]
    if kcode == 'O':
        # keys of one container are mutually comparable (the documentation's rule): the stored keys are
        # strings, so only strings, None (ordered before everything) and default-comparison objects are offered
        keyclasses = [(m, x) for m, x in keyclasses if m['t'] in ('str', 'none', 'plain')]
        # ... and keys that cannot be ordered against the stored strings (an int, a tuple): whatever happens - the
        # comparison raises TypeError wherever one is made - must happen alike in both implementations
        keyclasses += [(dict(t='incomp'), 7), (dict(t='incomp'), ('b', 1))]
    valclasses = classes_for('val', vcode) + [(dict(t='index'), Idx(7))]
    for kindname, ki, is_set in kinds:
        for shape, ranks in shapes.items():
            if shape == 'deep' and kindname in ('Bucket', 'Set'):
                continue
            for role, calls, classes in (('key', keycalls_set if is_set else keycalls_map, keyclasses),
                                         ('val', [] if is_set else valcalls, valclasses),
                                         ('key', noarg_set if is_set else noarg_map, [(dict(t='noarg'), None)])):
                for name, cls_, f in calls:
                    if name in ('insert',) and not hasattr(C[ki], 'insert'):
                        continue
                    if name.startswith('insert') and not hasattr(C[ki], 'insert'):
                        continue
                    if role == 'val' and shape == 'empty' and name in ('setitem_replace', 'setdefault_present', 'insert_present'):
                        continue
                    for m, x in classes:
                        tc, tp = build(C[ki], is_set, ranks), build(PY[ki], is_set, ranks)
                        bc, bp = contents(tc, is_set), contents(tp, is_set)
                        oc, rc = run(lambda t: f(t, x), tc, 'c')
                        op, rp = run(lambda t: f(t, x), tp, 'py')
                        if oc == 'ok' and isinstance(rc, str) and rc in ('present', 'absent'):
                            oc = rc
                        if op == 'ok' and isinstance(rp, str) and rp in ('present', 'absent'):
                            op = rp
                        if cls_ == 'lookup':
                            oc = 'absent' if oc == 'KeyError' else oc
                            op = 'absent' if op == 'KeyError' else op
                        if name.startswith('update'):
                            rc = rp = None      # (the return value of update() is undocumented and excluded)
                        ac, ap = contents(tc, is_set), contents(tp, is_set)
                        try:
                            same_pickle = pickle.dumps(tc, 2) == pickle.dumps(tp, 2)
                        except Exception as e:
                            same_pickle = False
                        recs.append(dict(role=role, code=kcode if role == 'key' else vcode, x=m, cls=cls_, call=name, kind=kindname,
                                         shape=shape, c=oc, py=op, unchanged_c=(ac == bc), unchanged_py=(ap == bp),
                                         same_result=(oc == op and norm(rc) == norm(rp)), same_contents=(ac == ap),
                                         same_shape=(sig(tc) == sig(tp)), same_pickle=same_pickle,
                                         detail=dict(rc=str(norm(rc))[:60], rp=str(norm(rp))[:60])))
    embed.restore_sizes(old)
    json.dump(dict(records=recs), open(sys.argv[2], 'w'))


if __name__ == '__main__':
    main()
