"""C18 conformance: build pristine and corrupted trees on the real containers
(corruptions only through __setstate__), run t._check() and BTrees.check.check(t),
record the verdicts.  Nothing is judged here.

usage: python -m harness.workers.check_worker JOB.json RESULT.json"""
import json, sys, hashlib, random


def verdict(f):
    try:
        f()
        return 'accept'
    except AssertionError:
        return 'reject'
    except Exception as e:
        return 'other:' + type(e).__name__


def main():
    job = json.load(open(sys.argv[1]))
    from harness import embed, proj as P, api, graph, corrupt
    import BTrees.check
    fam, impl, is_set = job['fam'], job['impl'], job['is_set']
    emb = embed.Embedding(fam, job.get('emb', 'mid'))
    BT, BU, TS, SE = embed.classes(fam, impl)
    cls, leafcls = (TS, SE) if is_set else (BT, BU)
    old = embed.set_sizes([BT, TS], job['leaf'], job['internal'])
    nk = job['nkeys']
    # model keys 1..nk are used as 2..nk+1; 1 and nk+2 lie outside.  (shift 0 with the 'ext' embedding of an object-keyed
    # family: the smallest stored key is None)
    shift = job.get('shift', 1)
    U = list(range(1, nk + 3))
    rng = random.Random(job.get('seed', 0))
    recs, counts = [], dict(pristine=0, corrupted=0, unconstructible=0, labels={})
    problems = []

    def key(r):
        return emb.key(r)

    def build(tree):
        """real container for a tree value; raises if __setstate__ refuses"""
        ls = corrupt.leaves(tree)
        objs = {l['id']: leafcls() for l in ls}
        extra = {}

        def ptr(x):
            if x == 0:
                return None
            if x in objs:
                return objs[x]
            if x not in extra:          # a leaf that is not part of the tree
                b = leafcls()
                b.__setstate__(((key(nk + 2),) if is_set else (key(nk + 2), emb.val(1)),))
                extra[x] = b
            return extra[x]
        for l in ls:
            if is_set:
                items = tuple(key(k) for k in l['ks'])
            else:
                items = []
                for k, v in zip(l['ks'], l['vs']):
                    items += [key(k), emb.val(v)]
                items = tuple(items)
            nx = ptr(l['nx'])
            objs[l['id']].__setstate__((items,) if nx is None else (items, nx))

        def node(q):
            if q['t'] == 'L':
                return objs[q['id']]
            t = cls()
            if not q['kids']:
                if q['fb'] != 0:
                    raise ValueError('empty node with firstbucket cannot be expressed')
                return t
            data = [node(q['kids'][0])]
            for s, c in zip(q['seps'], q['kids'][1:]):
                data += [key(s), node(c)]
            t.__setstate__((tuple(data), ptr(q['fb'])))
            return t
        return node(tree)

    def observe(tree, label, pristine_obj=None):
        try:
            t = pristine_obj if pristine_obj is not None else build(tree)
        except (TypeError, ValueError) as e:
            counts['unconstructible'] += 1
            return
        pv = verdict(t._check)
        wv = verdict(lambda: BTrees.check.check(t))
        recs.append(dict(impl=impl, tree=tree, pv=pv, wv=wv, pristine=1 if label == 'pristine' else 0, label=label))
        counts['labels'][label] = counts['labels'].get(label, 0) + 1

    if job.get('dump'):
        with open(job['dump']) as fh:
            payloads = json.load(fh)['payloads']
        g = graph.Graph(payloads)
        states = g.states()
        apply = api.apply_set if is_set else api.apply_map
        for si in job['indices']:
            st = states[si]
            if not st['kids']:
                continue
            tree = corrupt.idtree(st, shift)
            # the pristine tree: built through the public API
            t = cls()
            emb2 = _Shifted(emb, shift)
            for pi in g.path_to(st):
                apply(t, emb2, payloads[pi]['act'], 0)
            rp = corrupt.idtree(P.proj(t, emb2, is_set), shift)
            if is_set:
                rp = _noval(rp)
                tree = _noval(tree)
            if rp != tree:
                problems.append(dict(kind='pristine-structure', model=tree, real=rp))
                continue
            observe(tree, 'pristine', t)
            counts['pristine'] += 1
            if impl == 'c' and not _embeds(rp):
                # the same valid tree as a *stored* one, with different parts of it evicted: the checkers load what they
                # need and accept (C; a tree with a non-root single-leaf node does not survive the store: finding D18)
                from harness import minijar
                jar = minijar.Jar(minijar.Store())
                jar.add(t)
                jar.commit()
                ks_ = sorted(P.flatten(P.proj(t, emb2, is_set))[0])
                for pattern in ('all', 'root', 'min', 'max', 'mid', 'walk-first'):
                    jar.cache.minimize()
                    if pattern == 'root':
                        t._p_activate()
                    elif pattern == 'min':
                        t.minKey()
                    elif pattern == 'max':
                        t.maxKey()
                    elif pattern == 'mid':
                        emb2.key(ks_[len(ks_) // 2]) in t
                    if pattern == 'walk-first':
                        # check() first (it loads every node), _check() on the loaded tree
                        wv = verdict(lambda: BTrees.check.check(t))
                        pv = verdict(t._check)
                        recs.append(dict(impl=impl, tree=tree, pv=pv, wv=wv, pristine=1, label='pristine'))
                    else:
                        observe(tree, 'pristine', t)
                    counts['stored'] = counts.get('stored', 0) + 1
            # the same tree rebuilt from its state must get the same verdicts
            observe(tree, 'rebuilt')
            nl = len(corrupt.leaves(tree))
            Pset = list(range(1, nl + 1)) + [corrupt.FOREIGN]
            muts = list(corrupt.mutants(tree, U, Pset))
            cap = job.get('per_state', 0)
            if cap and len(muts) > cap:
                # stratified by label
                by = {}
                for lab, m in muts:
                    by.setdefault(lab, []).append((lab, m))
                muts = []
                for lab in sorted(by):
                    rng.shuffle(by[lab])
                per = max(2, cap // len(by))
                for lab in sorted(by):
                    muts += by[lab][:per]
            for lab, m in muts:
                observe(m, lab)
                counts['corrupted'] += 1
    for ent in job.get('explicit', []):
        # corruptions enumerated by TLC (Check!Mut): [tree, muts]
        tree = ent['tree']
        if is_set:
            tree = _noval(tree)
        observe(tree, 'rebuilt')
        for m in ent['muts']:
            observe(_noval(m) if is_set else m, 'tlc')
            counts['corrupted'] += 1
    embed.restore_sizes(old)
    json.dump(dict(recs=recs, counts=counts, problems=problems[:20]), open(sys.argv[2], 'w'))


def _embeds(p, root=True):
    """a non-root interior node whose only child is a leaf (its record embeds that leaf: finding D18)"""
    if p['t'] == 'L':
        return False
    if not root and len(p['kids']) == 1 and p['kids'][0]['t'] == 'L':
        return True
    return any(_embeds(c, False) for c in p['kids'])


def _noval(p):
    if p['t'] == 'L':
        return dict(p, vs=[1] * len(p['ks']))
    return dict(p, kids=[_noval(c) for c in p['kids']])


class _Shifted:
    """embedding with model key k rendered as rank k+shift"""
    def __init__(self, emb, shift):
        self.e, self.s, self.fam = emb, shift, emb.fam

    def key(self, r):
        return self.e.key(r + self.s)

    def val(self, r):
        return self.e.val(r)

    def rk(self, k):
        r = self.e.rk(k)
        return r - self.s if isinstance(r, int) else r

    def rv(self, v):
        return self.e.rv(v)


if __name__ == '__main__':
    main()
