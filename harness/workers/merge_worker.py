"""C07 conformance: run _p_resolveConflict of the real classes on every
triple of leaf states of a small universe (plus links, None states, tree
wrappers, multi-leaf states, malformed shapes) and record the outcomes.

usage: python -m harness.workers.merge_worker JOB.json RESULT.json"""
import itertools, json, sys


def main():
    job = json.load(open(sys.argv[1]))
    from harness import embed
    from BTrees.Interfaces import BTreesConflictError
    fam, impl = job['fam'], job['impl']
    emb = embed.Embedding(fam, job.get('emb', 'mid'))
    BT, BU, TS, SE = embed.classes(fam, impl)
    is_set = job['is_set']
    # The three states reach _p_resolveConflict from three separate unpicklings: equal keys and values of different
    # states are different objects.  The 'mid' embedding is moved out of the interpreter's shared small ints and
    # one-character strings, and every state is passed through its own pickle round trip.
    if emb.which == 'mid':
        if fam[0] in 'ILUQ':
            emb.keys = [1000 + k for k in emb.keys]
        elif fam[0] == 'O':
            emb.keys = [k * 3 for k in emb.keys]
        if fam[1] in 'ILUQ':
            emb.vals = [1000 + v for v in emb.vals]
        elif fam[1] == 'O':
            emb.vals = [(v, v) for v in emb.vals]
        emb.krank = {k: i + 1 for i, k in enumerate(emb.keys)}
        emb.vrank = {v: i + 1 for i, v in enumerate(emb.vals)}
    import pickle
    leafcls, treecls = (SE, TS) if is_set else (BU, BT)
    # a user subclass of the tree class (the usual way to give a tree its own node sizes) resolves like its base
    subtreecls = type('Sub' + treecls.__name__, (treecls,), {})
    nk, nv = job['nkeys'], (1 if is_set else job['nvals'])
    links = job['links']
    A, B = leafcls(), leafcls()          # two distinct successor leaves
    linkobj = {0: None, 1: A, 2: B}
    # all leaf states over the universe
    states = []
    for r in range(nk + 1):
        for ks in itertools.combinations(range(1, nk + 1), r):
            for vs in itertools.product(range(1, nv + 1), repeat=len(ks)):
                states.append([[k, v] for k, v in zip(ks, vs)])
    sel = job.get('select')          # optional sampling: (modulus, residue)

    def leafstate(items, nx, none_for_empty):
        if not items and none_for_empty and nx == 0:
            return None
        flat = []
        for k, v in items:
            flat.append(emb.key(k))
            if not is_set:
                flat.append(emb.val(v))
        flat = pickle.loads(pickle.dumps(tuple(flat), 3))
        if nx:
            return (flat, linkobj[nx])
        return (flat,)

    def unstate(st):
        """real merged state -> (items as ranks, nx)"""
        flat = st[0]
        nx = 0
        if len(st) > 1 and st[1] is not None:
            nx = 1 if st[1] is A else 2 if st[1] is B else 9
        if is_set:
            return [[emb.rk(k), 1] for k in flat], nx
        return [[emb.rk(flat[j]), emb.rv(flat[j + 1])] for j in range(0, len(flat), 2)], nx

    recs = {}
    count = 0
    crash = []

    def call(target, wrap, o, c, n, xo, xc, xn, variant):
        none_for_empty = variant % 2 == 0
        ss = [leafstate(o, xo, none_for_empty), leafstate(c, xc, none_for_empty), leafstate(n, xn, none_for_empty)]
        if wrap:
            ss = [None if s is None else ((s,),) for s in ss]
        try:
            res = target()._p_resolveConflict(*ss)
            if wrap:
                res = res[0][0]
            items, nx = unstate(res)
            return ['ok', items, nx]
        except BTreesConflictError as e:
            a = e.args
            return ['err', a[0], a[1], a[2], a[3]]
        except Exception as e:
            return ['exc', type(e).__name__]

    idx = 0
    for o in states:
        for c in states:
            for n in states:
                idx += 1
                if sel and idx % sel[0] != sel[1]:
                    continue
                for (xo, xc, xn) in links:
                    for (target, wrap, name) in ((leafcls, False, 'leaf'), (treecls, True, 'tree'), (subtreecls, True, 'subtree')):
                        got = call(target, wrap, o, c, n, xo, xc, xn, idx)
                        count += 1
                        r = dict(o=o, c=c, n=n, xo=xo, xc=xc, xn=xn, forms=['leaf', 'leaf', 'leaf'], got=got)
                        k = json.dumps(r)
                        if k not in recs:
                            r['who'] = name
                            recs[k] = r
    # multi-leaf tree states: reason 11 whichever of the three is multi-leaf
    extra = []
    l1, l2 = leafcls(), leafcls()
    multi = ((l1, emb.key(2), l2), l1)
    one = leafstate([[1, 1]], 0, False)
    for pos in range(3):
        ss = [((one,),)] * 3
        ss[pos] = multi
        try:
            treecls()._p_resolveConflict(*ss)
            got = ['ok']
        except BTreesConflictError as e:
            got = ['err'] + list(e.args)
        except Exception as e:
            got = ['exc', type(e).__name__]
        forms = ['leaf'] * 3
        forms[pos] = 'multi'
        r = dict(o=[[1, 1]], c=[[1, 1]], n=[[1, 1]], xo=0, xc=0, xn=0, forms=forms, got=got, who='tree')
        recs[json.dumps(r)] = r
        count += 1
    # malformed shapes: both implementations must refuse them the same way (TypeError)
    malformed = []
    for label, ss, target in (
            ('leaf state not a tuple', [[1, 2], one, one], leafcls),
            ('tree state 3-tuple', [(1, 2, 3), ((one,),), ((one,),)], treecls),
            ('tree state not tuple', ['abc', ((one,),), ((one,),)], treecls),
            ('embedded state not 1-tuple', [((one, one),), ((one,),), ((one,),)], treecls),
            ('embedded leaf state not tuple', [((5,),), ((one,),), ((one,),)], treecls)):
        for perm in range(3):
            s2 = list(ss)
            s2[0], s2[perm] = s2[perm], s2[0]
            try:
                target()._p_resolveConflict(*s2)
                got = 'ok'
            except BTreesConflictError as e:
                got = 'conflict%r' % (e.args,)
            except Exception as e:
                got = type(e).__name__
            malformed.append([label, perm, got])
            count += 1
    json.dump(dict(records=list(recs.values()), malformed=malformed, count=count), open(sys.argv[2], 'w'))


if __name__ == '__main__':
    main()
