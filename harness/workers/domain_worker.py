"""C13 / C09 conformance: offer every value class as key and as value through
every writing entry point of the real containers, record what happened.

usage: python -m harness.workers.domain_worker JOB.json RESULT.json"""
import json, math, operator, sys

BASES = {'-2^100': -2 ** 100, '-2^63': -2 ** 63, '-2^31': -2 ** 31, '0': 0, '2^31': 2 ** 31, '2^32': 2 ** 32,
         '2^63': 2 ** 63, '2^64': 2 ** 64, '2^100': 2 ** 100}


class Plain:
    pass


class BytesSub(bytes):
    def __bytes__(self):
        return b'<' + bytes.__getitem__(self, slice(None)) + b'>'


def classes_for(role, code):
    """(model record, real object) pairs offered to a slot of the given type code"""
    out = []
    for b, base in BASES.items():
        for off in ((-3, -2, -1, 0, 1, 2, 3) if b == '0' else (-2, -1, 0, 1, 2)):
            if code == 'F' and b != '0':
                continue
            out.append((dict(t='int', base=b, off=off), base + off))
    out += [(dict(t='bool', v=1), True), (dict(t='bool', v=0), False)]
    floats = [(0, 1, 0), (0, 3, -1), (1, 5, -2), (0, 0, 0), (0, (1 << 24) + 1, 0), (0, (1 << 24) + 3, 0),
              (1, (1 << 25) + 2, 3), (0, (1 << 25) + 6, -40), (0, (1 << 29) + 1, 10), (0, 1, -149), (0, 1, -150),
              (1, 3, -150), (0, 1, -151), (0, 5, -151), (0, (1 << 24) - 1, 104), (0, 1, 127), (0, (1 << 25) - 1, 103),
              (0, 1, 128), (1, 1, 200), (0, (1 << 24) + 1, -149), (0, (1 << 26) + 1, -152)]
    for neg, m, e in floats:
        x = (-1) ** neg * math.ldexp(float(m), e)
        out.append((dict(t='float', neg=neg, m=m, e=e, asint=0), x))
        if e >= 0 and code == 'F':
            out.append((dict(t='float', neg=neg, m=m, e=e, asint=1), (-1) ** neg * (m << e)))
    if code == 'F':
        # an integer beyond the range of a double (float() of it overflows)
        out.append((dict(t='float', neg=0, m=1, e=1100, asint=1), 1 << 1100))
    out += [(dict(t='inf', neg=0), float('inf')), (dict(t='inf', neg=1), float('-inf')), (dict(t='nan'), float('nan'))]
    out += [(dict(t='str'), 'ab')]
    # text that spells a number is text all the same (float() and int() would parse it)
    out += [(dict(t='str'), s) for s in ('1', '1.5', ' 2 ', '1e3', 'inf', 'nan', '-0', '0x10', '1_0', '')]
    for n in range(0, 9):
        out.append((dict(t='bytes', n=n), b'abcdefgh'[:n]))
    out += [(dict(t='bytes', n=len(b)), b) for b in (b'7', b'12', b'1.5', b'123456', b'1e3456')]
    out += [(dict(t='bytearray', n=len(b)), bytearray(b)) for b in (b'3', b'12', b'123456')]
    # an instance of a bytes subclass (with a __bytes__ of its own): a string of that length like any other -
    # what is stored must read back equal to the characters it holds, not to what __bytes__ answers
    out += [(dict(t='bytes', n=len(b), sub=1), BytesSub(b)) for b in (b'ab', b'abcdef', b'abc')]
    import decimal, fractions
    out += [(dict(t='numobj'), decimal.Decimal('1.5')), (dict(t='numobj'), fractions.Fraction(3, 2))]
    out += [(dict(t='none'), None), (dict(t='plain'), Plain()), (dict(t='tuple'), (1, 2))]
    if code in 'ILUQ':
        # non-dyadic junk is not interesting for integer slots; keep one float
        out = [o for o in out if o[0]['t'] != 'float' or (o[0]['m'], o[0]['e']) in ((1, 0), (3, -1))]
    return out


def f32_outcome(x):
    if isinstance(x, float):
        if math.isnan(x):
            return ['nan']
        if math.isinf(x):
            return ['inf', 1 if x < 0 else 0]
        num, den = abs(x).as_integer_ratio()
        if num == 0:
            return ['f32', 0, 0, 0]
        e = -(den.bit_length() - 1)
        while num % 2 == 0:
            num //= 2
            e += 1
        return ['f32', 1 if x < 0 else 0, num, e]
    return ['notfloat:%r' % (x,)]


def main():
    job = json.load(open(sys.argv[1]))
    from harness import embed
    fam, impl = job['fam'], job['impl']
    emb = embed.Embedding(fam, 'mid')
    BT, BU, TS, SE = embed.classes(fam, impl)
    old = embed.set_sizes([BT, TS], 2, 2)
    kcode, vcode = fam[0], fam[1]
    recs = []
    goodk = [emb.key(3), emb.key(6), emb.key(9)]
    if kcode == 'O':
        goodk = [None]        # comparable with every other key (None is the smallest object key)
    goodv = emb.val(1)
    OOB = embed.classes('OO', impl)       # a wider family of the same implementation as a source of data

    def oosource(kind, k, v):
        """an OO BTree / Bucket holding {k: v}; None when the OO family cannot hold k itself"""
        try:
            src = (OOB[0] if kind == 'tree' else OOB[1])()
            src[k] = v
            return src
        except TypeError:
            return None

    WIDE = [embed.classes(f_, impl) for f_ in ('OO', 'LL', 'QQ')]

    def setsources(k):
        """Sets / TreeSets of wider families (of the same implementation) holding k: [(tag, container)]"""
        out = []
        for fi, C in enumerate(WIDE):
            for ci, tag in ((2, 'treeset'), (3, 'set')):
                try:
                    src = C[ci]([k])
                except (TypeError, OverflowError):
                    continue
                held = list(src)[0]
                if held is k or (type(held) is type(k) and held == k):      # (an LL set turns True into 1: not the same offer)
                    out.append(('%s%d' % (tag, fi), src))
        return out

    def fresh(cls, is_set):
        t = cls()
        for k in goodk:
            if is_set:
                t.add(k)
            else:
                t[k] = goodv
        return t

    def snapshot(t, is_set):
        """what "the container is unchanged" is read from: the entries, and - for a tree - truth value, whether its
        state is the empty state, and the verdict of _check() (a rejected first insert must leave an *empty tree*, not
        a tree holding an empty leaf)"""
        items = [repr(k) for k in t.keys()] if is_set else [(repr(k), repr(v)) for k, v in t.items()]
        if hasattr(t, '_check'):
            try:
                t._check()
                ck_ = 'ok'
            except Exception as e:
                ck_ = 'check: %s' % str(e)[:40]
            return [items, bool(t), t.__getstate__() is None, ck_]
        return items

    def classify_key(x, m, t, is_set):
        """what is stored for the offered key x"""
        new = [k for k in t.keys() if not any(k is g or (g is not None and k is not None and k == g) for g in goodk)]
        if x is None and kcode == 'O':
            new = [None]            # None was there already: offering it again stores nothing new
        if len(new) != 1:
            return ['stored?%d' % len(new)]
        k = new[0]
        if m['t'] == 'bool':
            return ['int', int(k)] if (isinstance(k, int) and not isinstance(k, bool)) or kcode == 'O' and k is x and False else \
                (['same'] if k is x or (k == x and type(k) is type(x)) else ['other:%r' % (k,)])
        if k is x or (type(k) is type(x) and k == x) or (isinstance(x, float) and x != x and k != k):
            return ['same']
        if isinstance(x, BytesSub) and type(k) is bytes and bytes.__eq__(k, x):
            return ['same']         # the characters, as plain bytes
        return ['other:%r' % (k,)]

    def lookup(t, x, is_set):
        try:
            a = x in t
            b = bool(t.has_key(x))
            if is_set:
                c = d = a
            else:
                s = object()
                c = t.get(x, s) is not s
                try:
                    t[x]
                    d = True
                except KeyError:
                    d = False
            if a == b == c == d:
                return 'present' if a else 'absent'
            return 'incoherent:%s%s%s%s' % (a, b, c, d)
        except Exception as e:
            return 'raises:' + type(e).__name__

    # ---- keys
    for m, x in classes_for('key', kcode):
        for (cls, is_set, kindname) in ((BT, False, 'BTree'), (BU, False, 'Bucket'), (TS, True, 'TreeSet'), (SE, True, 'Set')):
            if is_set:
                entries = [('add', lambda t: t.add(x)), ('update', lambda t: t.update([x])),
                           ('ctor', None), ('ior', lambda t: operator.ior(t, [x])), ('setstate', None)]
                # members taken from a set of a wider family (same implementation): converted and checked like any others
                for tag, src in setsources(x):
                    entries.append(('update_from_' + tag, (lambda s_: (lambda t: t.update(s_)))(src)))
                    entries.append(('ior_from_' + tag, (lambda s_: (lambda t: operator.ior(t, s_)))(src)))
                    entries.append(('ixor_from_' + tag, (lambda s_: (lambda t: operator.ixor(t, s_)))(src)))
            else:
                entries = [('setitem', lambda t: t.__setitem__(x, goodv)), ('setdefault', lambda t: t.setdefault(x, goodv)),
                           ('update', lambda t: t.update([(x, goodv)])), ('ctor', None), ('setstate', None)]
                for sk in ('tree', 'bucket'):
                    src = oosource(sk, x, goodv)
                    if src is not None:
                        entries.append(('update_oo' + sk, (lambda s_: (lambda t: t.update(s_)))(src)))
                if hasattr(cls, 'insert'):
                    entries.append(('insert', lambda t: t.insert(x, goodv)))
            for name, f in entries + [('empty:' + n_, f_) for n_, f_ in entries if f_ is not None]:
                if name.startswith('ixor_from_') and any(x is g for g in goodk):
                    continue        # (^= toggles: a key that is stored already would be removed)
                t = cls() if name.startswith('empty:') else fresh(cls, is_set)
                before = snapshot(t, is_set)
                try:
                    if name == 'ctor':
                        t2 = cls([x] + goodk) if is_set else cls([(x, goodv)] + [(k, goodv) for k in goodk])
                        t = t2
                    elif name == 'setstate':
                        if kindname not in ('Bucket', 'Set'):
                            continue
                        t = cls()
                        before = []
                        t.__setstate__(((x,),) if is_set else ((x, goodv),))
                        got = ['same'] if len(t) == 1 else ['stored?']
                        k = list(t.keys())[0]
                        got = classify_key(x, m, _Only(t), is_set) if False else (
                            ['int', int(k)] if m['t'] == 'bool' and kcode != 'O' else
                            (['same'] if (k is x or (type(k) is type(x) and (k == x or k != k)) or
                                          (isinstance(x, BytesSub) and type(k) is bytes and bytes.__eq__(k, x))) else ['other:%r' % (k,)]))
                        recs.append(dict(role='key', code=kcode, x=m, got=got, unchanged=True, lookup=lookup(t, x, is_set),
                                         entry=name, kindname=kindname))
                        continue
                    else:
                        f(t)
                    got = classify_key(x, m, t, is_set)
                    if m['t'] == 'bool' and kcode != 'O' and got[0] != 'int':
                        new = [k for k in t.keys() if not any(k is g or (g is not None and k is not None and k == g) for g in goodk)]
                        got = ['int', int(new[0])] if len(new) == 1 and type(new[0]) is int else got
                    unchanged = True
                except TypeError:
                    got = ['TypeError']
                    unchanged = snapshot(t, is_set) == before
                except Exception as e:
                    got = ['exc:' + type(e).__name__]
                    unchanged = snapshot(t, is_set) == before
                recs.append(dict(role='key', code=kcode, x=m, got=got, unchanged=unchanged,
                                 lookup=lookup(t if got[0] != 'TypeError' else fresh(cls, is_set), x, is_set),
                                 entry=name, kindname=kindname))
    # ---- values
    if vcode != 'O' or True:
        for m, x in classes_for('val', vcode):
            for (cls, kindname) in ((BT, 'BTree'), (BU, 'Bucket')):
                newk = emb.key(5)
                goodk1 = goodk[1] if len(goodk) > 1 else goodk[0]
                entries = [('setitem', lambda t: t.__setitem__(newk, x)), ('setdefault', lambda t: t.setdefault(newk, x)),
                           ('update', lambda t: t.update({newk: x})), ('replace', lambda t: t.__setitem__(goodk1, x)),
                           ('ctor', None), ('setstate', None)]
                for sk in ('tree', 'bucket'):
                    src = oosource(sk, newk, x)
                    if src is not None:
                        entries.append(('update_oo' + sk, (lambda s_: (lambda t: t.update(s_)))(src)))
                if hasattr(cls, 'insert'):
                    entries.append(('insert', lambda t: t.insert(newk, x)))
                for name, f in entries + [('empty:' + n_, f_) for n_, f_ in entries if f_ is not None and n_ != 'replace']:
                    t = cls() if name.startswith('empty:') else fresh(cls, False)
                    before = snapshot(t, False)
                    try:
                        if name == 'ctor':
                            t = cls([(newk, x)])
                        elif name == 'setstate':
                            if kindname != 'Bucket':
                                continue
                            t = cls()
                            before = []
                            t.__setstate__(((newk, x),))
                        else:
                            f(t)
                        v = t[goodk1] if name == 'replace' else t[newk]
                        if vcode == 'F':
                            got = f32_outcome(v)
                        elif m['t'] == 'bool' and vcode != 'O':
                            got = ['int', int(v)] if type(v) is int else ['other:%r' % (v,)]
                        else:
                            got = ['same'] if (v is x or (type(v) is type(x) and (v == x or v != v)) or
                                               (isinstance(x, BytesSub) and type(v) is bytes and bytes.__eq__(v, x))) else ['other:%r' % (v,)]
                        unchanged = True
                    except TypeError:
                        got = ['TypeError']
                        unchanged = snapshot(t, False) == before
                    except Exception as e:
                        got = ['exc:' + type(e).__name__]
                        unchanged = snapshot(t, False) == before
                    recs.append(dict(role='val', code=vcode, x=m, got=got, unchanged=unchanged, lookup='n/a',
                                     entry=name, kindname=kindname))
    embed.restore_sizes(old)
    json.dump(dict(records=recs), open(sys.argv[2], 'w'))


class _Only:
    def __init__(self, t):
        self.t = t


if __name__ == '__main__':
    main()
