"""code -> spec: run seeded random call histories on real containers and
record one event per public call *after it returned* (also on the error
path): operation, arguments (as ranks), normalised result, ordered contents,
and -- for trees at small node sizes -- the projected node structure.

usage: python -m harness.workers.history_worker JOB.json RESULT.json"""
import json, random, sys


def main():
    job = json.load(open(sys.argv[1]))
    from harness import embed, proj as P, api
    import BTrees.check as BC
    fam, impl = job['fam'], job['impl']
    emb = embed.Embedding(fam, job.get('emb', 'mid'))
    BT, BU, TS, SE = embed.classes(fam, impl)
    kindname = job['kind']           # BTree | Bucket | TreeSet | Set
    cls = dict(BTree=BT, Bucket=BU, TreeSet=TS, Set=SE)[kindname]
    is_set = kindname in ('TreeSet', 'Set')
    is_tree = kindname in ('BTree', 'TreeSet')
    leaf, internal = job.get('leaf'), job.get('internal')
    old = None
    if leaf and job.get('subclass'):
        # node sizes set on a subclass before first use (the classes themselves keep their defaults); interior nodes
        # are then instances of the subclass.  (BTrees.check.check() only knows the package's own types: not called.)
        cls = type('Sub' + kindname, (cls,), dict(max_leaf_size=leaf, max_internal_size=internal))
    elif leaf:
        old = embed.set_sizes([BT, TS], leaf, internal)
    rng = random.Random(job['seed'])
    nk = job['nkeys']
    if job.get('subargs'):
        # keys and values offered as instances of subclasses of int / float / bytes (bool for 0 and 1)
        from harness.workers.state_worker import SubEmb
        emb = SubEmb(emb)
    mutvals = bool(job.get('mutvals')) and fam[1] == 'O'
    # a key that cannot be ordered against the stored ones: an int among the strings of the 'mid' embedding (object keys)
    incomp = 7 if (fam[0] == 'O' and job.get('emb', 'mid') == 'mid' and not job.get('subargs')) else None
    if mutvals:
        # values are mutable objects (one-element lists holding the rank): `v = t[k]; change v in place; t[k] = v` is how
        # a change inside a plain mutable value is announced - storing the very object that is already there counts
        class _MutEmb:
            def __init__(self, e):
                self.e = e

            def val(self, r):
                return [r]

            def rv(self, x):
                return x[0] if isinstance(x, list) and len(x) == 1 else 'val?%r' % (x,)

            def __getattr__(self, n):
                return getattr(self.e, n)
        emb = _MutEmb(emb)
    traces, structs = [], []
    sent = object()
    use_jar = bool(job.get('jar'))
    if use_jar:
        from harness import minijar
    for tno in range(job['ntraces']):
        t = cls()
        tr = []
        if use_jar:
            # the container lives in the stand-in data manager as one record; the history is cut into transactions
            store = minijar.Store()
            jar = minijar.Jar(store)
            root_oid = jar.add(t)
            jar.commit()
        for step in range(job['length']):
            if use_jar and rng.random() < 0.22:
                if rng.random() < 0.75:
                    jar.commit()
                    rj = minijar.Jar(store)         # a fresh reader: nothing cached
                    rt = rj.get(root_oid)
                    rkeys = [emb.rk(x) for x in rt.keys()]
                    rvals = [1] * len(rkeys) if is_set else [emb.rv(x) for x in rt.values()]
                    op = 'commit'
                else:
                    jar.abort()
                    rkeys, rvals = [], []
                    op = 'abort'
                keys = [emb.rk(x) for x in t.keys()]
                vals = [1] * len(keys) if is_set else [emb.rv(x) for x in t.values()]
                tr.append(dict(op=op, k=0, v=0, ks=[], res=['ok'], keys=keys, vals=vals, rkeys=rkeys, rvals=rvals))
                continue
            k = rng.randint(1, nk)
            v = 1 if is_set else rng.randint(1, 3)
            rk, rv = emb.key(k), emb.val(v)
            ks = []
            ev = None
            try:
                if is_set:
                    op = rng.choice(['insert', 'insert', 'insert', 'setitem', 'delitem', 'delitem', 'discard',
                                     'popitem', 'contains', 'len', 'bool', 'ior', 'isub', 'iand', 'ixor',
                                     'update', 'clear', 'badwrite', 'badcontains', 'badremove', 'baddiscard'] + (['xcontains'] if incomp is not None else []))
                    if op == 'clear' and rng.random() < 0.7:
                        op = 'insert'
                    if op == 'badremove' and fam[0] == 'O':
                        # (object keys: the C containers only notice a default-comparison key when a comparison with a stored
                        #  key raises - none does in an empty container or next to None: KeyError; finding D38, C09)
                        op = 'baddiscard'
                    if op == 'insert':
                        res = ['v', int(t.add(rk))]
                    elif op == 'setitem':
                        t.insert(rk); res = ['ok']
                    elif op == 'delitem':
                        t.remove(rk); res = ['ok']
                    elif op == 'discard':
                        t.discard(rk); res = ['ok']
                    elif op == 'popitem':
                        res = ['kv', emb.rk(t.pop()), 1]
                    elif op == 'contains':
                        res = ['v', 1 if (rk in t) else 0]
                    elif op == 'len':
                        res = ['v', len(t)]
                    elif op == 'bool':
                        res = ['v', 1 if t else 0]
                    elif op in ('ior', 'isub', 'iand', 'ixor', 'update'):
                        # the operand: any iterable of keys - unsorted, with repeated members, one-shot, one of the
                        # package's own containers, or the container itself (s op= s); recorded as the set it denotes
                        raw = [rng.randint(1, nk) for _ in range(rng.randint(0, 5))]
                        w = rng.random()
                        if w < 0.12:
                            # repeats chosen so that the number of members with repetition equals len(t)
                            cur = [emb.rk(x) for x in t.keys()]
                            if len(cur) >= 2:
                                raw = (cur[:-1] + [cur[0]])
                                rng.shuffle(raw)
                        ks = sorted(set(raw))
                        arg = [emb.key(x) for x in raw]
                        if w < 0.12:
                            pass
                        elif w < 0.22:
                            arg = t
                            ks = [emb.rk(x) for x in t.keys()]
                        elif w < 0.4:
                            arg = SE(arg)
                        elif w < 0.5:
                            arg = TS(arg)
                        elif w < 0.6:
                            arg = tuple(arg)
                        elif w < 0.7:
                            arg = iter(arg)
                        elif w < 0.8 and fam[0] != 'O':
                            arg = set(arg)
                        if op == 'ior':
                            t |= arg
                        elif op == 'isub':
                            t -= arg
                        elif op == 'iand':
                            t &= arg
                        elif op == 'ixor':
                            t ^= arg
                        else:
                            t.update(arg)
                            ks = [[x, 1] for x in ks]
                        res = ['ok']
                    elif op == 'clear':
                        t.clear(); res = ['ok']
                    elif op == 'badwrite':
                        t.add(api.bad_key(fam)); res = ['ok']
                    elif op == 'badcontains':
                        res = ['v', 1 if (api.bad_key(fam) in t) else 0]
                    elif op == 'xcontains':
                        res = ['v', 1 if (incomp in t) else 0]
                    elif op == 'badremove':
                        t.remove(api.bad_key(fam)); res = ['ok']
                    elif op == 'baddiscard':
                        t.discard(api.bad_key(fam)); res = ['ok']
                else:
                    op = rng.choice(['setitem', 'setitem', 'setitem', 'insert', 'setdefault', 'delitem', 'delitem',
                                     'pop', 'popdefault', 'popitem', 'get', 'getitem', 'contains', 'len', 'bool',
                                     'update', 'clear', 'badwrite', 'badget', 'badgetitem', 'badcontains', 'badpop', 'badpopdefault'] + (['xcontains', 'xget', 'xgetitem'] if incomp is not None else []))
                    if op == 'clear' and rng.random() < 0.7:
                        op = 'setitem'
                    if op == 'insert' and not hasattr(t, 'insert'):
                        op = 'setdefault'
                    if mutvals and op == 'setitem' and rng.random() < 0.6 and rk in t:
                        # the stored object itself, changed in place and stored again (for the sorted map: t[k] = v)
                        rv = t[rk]
                        rv[0] = v
                    if op == 'setitem':
                        t[rk] = rv; res = ['ok']
                    elif op == 'insert':
                        res = ['v', int(t.insert(rk, rv))]
                    elif op == 'setdefault':
                        res = ['v', emb.rv(t.setdefault(rk, rv))]
                    elif op == 'delitem':
                        del t[rk]; res = ['ok']
                    elif op == 'pop':
                        res = ['v', emb.rv(t.pop(rk))]
                    elif op == 'popdefault':
                        x = t.pop(rk, sent)
                        res = ['v', v if x is sent else emb.rv(x)]
                    elif op == 'popitem':
                        a, b = t.popitem(); res = ['kv', emb.rk(a), emb.rv(b)]
                    elif op == 'get':
                        x = t.get(rk, sent)
                        res = ['v', v if x is sent else emb.rv(x)]
                    elif op == 'getitem':
                        res = ['v', emb.rv(t[rk])]
                    elif op == 'contains':
                        res = ['v', 1 if (rk in t) else 0]
                    elif op == 'len':
                        res = ['v', len(t)]
                    elif op == 'bool':
                        res = ['v', 1 if t else 0]
                    elif op == 'update':
                        prs = [[rng.randint(1, nk), rng.randint(1, 3)] for _ in range(rng.randint(0, 4))]
                        arg = [(emb.key(a), emb.val(b)) for a, b in prs]
                        w = rng.random()
                        if w < 0.3:
                            arg = dict(arg)
                            prs = [[emb.rk(a), emb.rv(b)] for a, b in arg.items()]
                        elif w < 0.5:
                            arg = BU(dict(arg))
                            prs = [[emb.rk(a), emb.rv(b)] for a, b in arg.items()]
                        t.update(arg)
                        ks = prs
                        res = ['ok']
                    elif op == 'clear':
                        t.clear(); res = ['ok']
                    elif op == 'badwrite':
                        bv = api.bad_val(fam)
                        if bv is api._SENT or rng.random() < 0.5:
                            t[api.bad_key(fam)] = rv
                        else:
                            t[rk] = bv
                        res = ['ok']
                    elif op == 'badget':
                        x = t.get(api.bad_key(fam), sent)
                        res = ['v', v if x is sent else 'found']
                    elif op == 'badgetitem':
                        res = ['v', emb.rv(t[api.bad_key(fam)])]
                    elif op == 'badcontains':
                        res = ['v', 1 if (api.bad_key(fam) in t) else 0]
                    elif op == 'xcontains':
                        res = ['v', 1 if (incomp in t) else 0]
                    elif op == 'xget':
                        x = t.get(incomp, sent)
                        res = ['v', v if x is sent else 'found']
                    elif op == 'xgetitem':
                        res = ['v', emb.rv(t[incomp])]
                    elif op == 'badpop':
                        t.pop(api.bad_key(fam)); res = ['ok']
                    elif op == 'badpopdefault':
                        t.pop(api.bad_key(fam), None); res = ['ok']
            except KeyError:
                res = ['KeyError']
            except TypeError:
                res = ['TypeError']
            except Exception as e:
                res = ['exc:' + type(e).__name__]
            keys = [emb.rk(x) for x in t.keys()]
            vals = [1] * len(keys) if is_set else [emb.rv(x) for x in t.values()]
            tr.append(dict(op=op, k=k, v=v, ks=ks, res=res, keys=keys, vals=vals, rkeys=[], rvals=[]) if use_jar else
                      dict(op=op, k=k, v=v, ks=ks, res=res, keys=keys, vals=vals))
            if is_tree and job.get('structure'):
                structs.append(dict(tree=P.proj(t, emb, is_set), maxleaf=leaf or t.max_leaf_size,
                                    maxint=internal or t.max_internal_size, keys=[emb.rk(x) for x in t],
                                    ctx=[tno, step]))
                try:
                    t._check()
                    if not job.get('subclass'):
                        BC.check(t)
                except Exception as e:
                    structs[-1]['checkfail'] = repr(e)
        traces.append(tr)
    if old:
        embed.restore_sizes(old)
    json.dump(dict(traces=traces, structs=structs), open(sys.argv[2], 'w'))


if __name__ == '__main__':
    main()
