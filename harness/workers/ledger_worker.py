"""C16 conformance (C implementation, object keys and values): the reference
ledger.  One key object per rank, one value object per rank; after every
replayed transition (Ledger!DumpL prints the ledger of the target state)

    sys.getrefcount(o) - baseline(o) == Owned(o)        for every key and value object

-- on normal and failing calls alike -- and around the other users of
references: lazy range sequences and iterators (alive, partly consumed,
dropped), set algebra results, conflict merges (resolved and refused),
pickling and state capture, clear(), eviction of stored nodes, destruction.

usage: python -m harness.workers.ledger_worker JOB.json RESULT.json"""
import json, sys, gc, pickle


class V:
    """a value object (compared by identity of rank)"""
    __slots__ = ('v',)

    def __init__(self, v):
        self.v = v

    def __eq__(self, o):
        return isinstance(o, V) and o.v == self.v

    def __lt__(self, o):
        return self.v < o.v

    def __hash__(self):
        return hash(self.v)

    def __reduce__(self):
        return (V, (self.v,))


def _inner_nodes(node, isroot, out):
    # (module level, not a nested closure: a closure referring to itself would keep `out` alive until collected)
    from harness import proj as P
    st = node.__getstate__()
    if not isroot:
        out.append(node)
    if st is None or len(st) == 1:      # (empty, or the inline form of a node with a single never-stored leaf)
        return
    for x in st[0][0::2]:
        if P.is_tree(x):
            _inner_nodes(x, False, out)


def main():
    job = json.load(open(sys.argv[1]))
    from harness import embed, proj as P, graph, keys, api, minijar
    is_set = job['is_set']
    K = keys.K
    BT, BU, TS, SE = embed.classes('OO', 'c')
    cls = TS if is_set else BT
    leafcls = SE if is_set else BU
    old = embed.set_sizes([BT, TS], job['leaf'], job['internal'])
    with open(job['dump']) as fh:
        payloads = json.load(fh)['payloads']
    g = graph.Graph(payloads)
    nk = job['nkeys']
    kpool = {r: K(r) for r in range(1, 40)}
    vpool = {r: V(r) for r in range(1, 6)}
    import BTrees.OOBTree as M

    class Emb:
        fam = 'OO'

        def key(self, r):
            return kpool[r]

        def val(self, r):
            return vpool[r]

        def rk(self, k):
            return k.v if isinstance(k, K) else 'key?%r' % (k,)

        def rv(self, v):
            return v.v if isinstance(v, V) else 'val?%r' % (v,)
    emb = Emb()
    apply = api.apply_set if is_set else api.apply_map
    gc.disable()

    def refs():
        d = {('k', r): sys.getrefcount(o) for r, o in kpool.items()}
        d.update({('v', r): sys.getrefcount(o) for r, o in vpool.items()})
        return d
    mism, counts = [], dict(replayed=0, steps=0, scenarios=0, merges=0)
    base = refs()

    def ledger_of(tr):
        want = dict(base)
        for i, n in enumerate(tr['keys']):
            want[('k', i + 1)] = base[('k', i + 1)] + n
        if not is_set:
            for i, n in enumerate(tr['vals']):
                want[('v', i + 1)] = base[('v', i + 1)] + n
        return want

    def node_refs(t):
        """reference counts of the node objects, minus the references this function itself holds"""
        leaves = P.collect_leaves(t)
        inner = []
        _inner_nodes(t, True, inner)
        lr = [sys.getrefcount(leaves[i]) - 2 for i in range(len(leaves))]
        ir = [sys.getrefcount(inner[i]) - 2 for i in range(len(inner))]
        return lr, ir

    def diff(now, want):
        return {'%s%d' % k: [now[k] - base[k], want[k] - base[k]] for k in now if now[k] != want[k]}

    def variant(i, j):
        return (i * 7919 + j * 104729) % 1000003

    for ti in job['indices']:
        tr = payloads[ti]
        path = g.path_to(tr['from'])
        t = cls()
        for j, pi in enumerate(path):
            apply(t, emb, payloads[pi]['act'], variant(ti, j))
        counts['steps'] += len(path) + 1
        var = variant(ti, 9999)
        r = apply(t, emb, tr['act'], var)
        counts['replayed'] += 1
        where = dict(is_set=is_set, sizes=[job['leaf'], job['internal']], ti=ti, variant=var,
                     path=[payloads[pi]['act'] for pi in path], act=tr['act'])
        del r
        now = refs()
        want = ledger_of(tr)
        if now != want:
            mism.append(dict(where, kind='ledger', delta_real_model=diff(now, want)))
        if 'lrefs' in tr:
            lr, ir = node_refs(t)
            if lr != tr['lrefs'] or ir != tr['irefs']:
                mism.append(dict(where, kind='node-ledger', delta_real_model=dict(leaves=[lr, tr['lrefs']], interior=[ir, tr['irefs']])))
        # ---- other users of references, on this state
        if job.get('scenarios') and ti % job.get('scenario_every', 7) == 0:
            counts['scenarios'] += 1
            ks = list(P.flatten(tr['to'])[0])        # ranks (holding the key objects here would count)
            def expect(label, extra=None):
                now = refs()
                w = dict(want)
                for k_, n_ in (extra or {}).items():
                    w[k_] = w[k_] + n_
                if now != w:
                    mism.append(dict(where, kind='ledger-' + label, delta_real_model=diff(now, w)))
            seq = t.keys()
            expect('lazy-sequence-alive')
            if ks:
                x = seq[len(ks) // 2]
                del x
                y = seq[-1]
                del y
            it = iter(t.keys(kpool[ks[0]], kpool[ks[-1]])) if ks else iter(t)
            for _ in range(len(ks) // 2):
                next(it)
            mid = refs()            # (an iterator may cache its current item)
            del it, seq
            expect('sequences-dropped')
            # every kind of range search, the lazy sequence dropped at once: nodes and entries as before
            bounds = [None] + [kpool[x] for x in ks[:1] + ks[-1:]]
            for lo in bounds:
                for hi in bounds:
                    for xl in (False, True):
                        for xh in (False, True):
                            try:
                                s_ = t.keys(lo, hi, xl, xh)
                                n_ = len(s_)
                                del s_
                            except (ValueError, TypeError):
                                pass
            del bounds, lo, hi
            expect('range-searches-dropped')
            if 'lrefs' in tr:
                lr, ir = node_refs(t)
                if lr != tr['lrefs'] or ir != tr['irefs']:
                    mism.append(dict(where, kind='node-ledger-after-range-searches', delta_real_model=dict(leaves=[lr, tr['lrefs']], interior=[ir, tr['irefs']])))
            if not is_set:
                its = t.items()
                lst = list(its)
                del its
                del lst
                vs = list(t.values())
                del vs
                expect('items-dropped')
            # set algebra: a result owns one reference per key it holds (values: difference keeps them)
            other = leafcls([kpool[1], kpool[3]]) if is_set else leafcls({kpool[1]: vpool[1], kpool[3]: vpool[1]})
            o_extra = {('k', 1): 1, ('k', 3): 1}
            if not is_set:
                o_extra[('v', 1)] = 2
            expect('operand-built', o_extra)
            for name, f in (('union', M.union), ('intersection', M.intersection), ('difference', M.difference)):
                res = f(t, other)
                got = [x.v for x in res.keys()]
                ex = dict(o_extra)
                for x in got:
                    ex[('k', x)] = ex.get(('k', x), 0) + 1
                if name == 'difference' and not is_set:
                    for x in res.values():
                        ex[('v', x.v)] = ex.get(('v', x.v), 0) + 1
                    del x
                expect(name + '-result-alive', ex)
                del res
                expect(name + '-result-dropped', o_extra)
            if is_set:
                res = t | other
                res2 = t & other
                res3 = t - other
                del res, res2, res3
                expect('operators-dropped', o_extra)
                cp = cls(t)
                cp |= other
                cp -= other
                cp &= t
                cp ^= other
                del cp
                expect('inplace-operators-dropped', o_extra)
            del other
            expect('operand-dropped')
            st = t.__getstate__()
            del st
            s = pickle.dumps(t, 2)
            t2 = pickle.loads(s)        # the copy holds its own key objects
            del t2, s
            expect('pickle-roundtrip')
            # a stored tree: eviction releases what the ghosts held, loading back brings copies
            if job.get('evict') and ks:
                store = minijar.Store()
                jar = minijar.Jar(store)
                jar.add(t)
                jar.commit()
                expect('committed')
                jar.cache.minimize()
                now = refs()
                if now != base:
                    mism.append(dict(where, kind='ledger-evicted', delta_real_model=diff(now, base)))
                n = len(t)                  # loads everything back: new key objects, not ours
                now = refs()
                if now != base or n != len(ks):
                    mism.append(dict(where, kind='ledger-reloaded', delta_real_model=diff(now, base)))
                del jar, store
            else:
                t.clear()
                now = refs()
                if now != base:
                    mism.append(dict(where, kind='ledger-cleared', delta_real_model=diff(now, base)))
        del t
        now = refs()
        if now != base:
            gc.collect()
            now = refs()
        if now != base:
            mism.append(dict(where, kind='ledger-destroyed', delta_real_model=diff(now, base)))
            base = now
        if len(mism) > 40:
            break
    # ---- conflict merges: nothing survives the call but the result
    if job.get('merge'):
        import itertools
        universe = []
        keys3 = [1, 2, 3]
        for mask in range(8):
            present = [k for i, k in enumerate(keys3) if mask >> i & 1]
            if is_set:
                universe.append([(k, 1) for k in present])
            else:
                for vals in itertools.product([1, 2], repeat=len(present)):
                    universe.append(list(zip(present, vals)))

        def st(items):
            if is_set:
                return (tuple(kpool[k] for k, _ in items),)
            flat = []
            for k, v in items:
                flat += [kpool[k], vpool[v]]
            return (tuple(flat),)
        sel = job.get('merge_select')
        n = 0
        for o in universe:
            for c in universe:
                for nw in universe:
                    n += 1
                    if sel and n % sel[0] != sel[1]:
                        continue
                    counts['merges'] += 1
                    b = leafcls()
                    try:
                        res = b._p_resolveConflict(st(o), st(c), st(nw))
                        del res
                    except Exception:
                        pass
                    del b
                    # ... and through the tree classes (a tree stored as one inline leaf: state ((leafstate,),))
                    tb = cls()
                    try:
                        res = tb._p_resolveConflict(((st(o),),), ((st(c),),), ((st(nw),),))
                        del res
                    except Exception:
                        pass
                    del tb
                    now = refs()
                    if now != base:
                        gc.collect()
                        now = refs()
                    if now != base:
                        mism.append(dict(is_set=is_set, kind='ledger-merge', o=o, c=c, n=nw, act={'op': 'resolveConflict'},
                                         delta_real_model=diff(now, base)))
                        base = now
                        if len(mism) > 40:
                            break
    embed.restore_sizes(old)
    json.dump(dict(counts=counts, mismatches=mism[:50]), open(sys.argv[2], 'w'))


if __name__ == '__main__':
    main()
