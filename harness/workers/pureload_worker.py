"""C06, second stage, run with PURE_PYTHON=1: pickles written by the C
implementation are loaded by the Python implementation (no extension
present), projected, checked and pickled again (bytes must be identical).

usage: python -m harness.workers.pureload_worker JOB.json RESULT.json"""
import base64, json, pickle, sys


def main():
    job = json.load(open(sys.argv[1]))
    import BTrees.OOBTree
    assert BTrees.OOBTree.OOBTree is BTrees.OOBTree.OOBTreePy, 'not a pure-Python process'
    from harness import embed, proj as P
    emb = embed.Embedding(job['fam'], job.get('emb', 'mid'))
    mism = []
    n = 0
    for p in job['pickles']:
        data = base64.b64decode(p['data'])
        try:
            t = pickle.loads(data)
            n += 1
            rp = P.proj(t, emb, job['is_set'])
            if rp != p['to']:
                mism.append(dict(kind='py-load-structure', ti=p['ti'], model=p['to'], real=rp))
                continue
            t._check()
            again = pickle.dumps(t, p['proto'])
            if again != data:
                mism.append(dict(kind='py-redump-bytes-differ', ti=p['ti'], proto=p['proto']))
        except Exception as e:
            mism.append(dict(kind='py-load-raises', ti=p['ti'], real=repr(e)))
    json.dump(dict(loaded=n, mismatches=mism), open(sys.argv[2], 'w'), default=repr)


if __name__ == '__main__':
    main()
