"""C04 conformance (code -> spec): seeded random / enumerated histories of
operations cut into transactions (commit or abort after any operation) on a
stored container; one event per call, recorded after it returned:

  op, k, v      the call (model vocabulary: setitem / delitem / clear / commit / abort)
  res           normalised result
  proj          the writer's node structure afterwards
  regs          objects that registered themselves during the call, as their
                positions (child-index paths, root = []) in the tree *before* the call
  loaded, litems, nwritten   (commit) what a fresh reader builds from the stored
                records: structure, chain contents; number of records written

usage: python -m harness.workers.persist_worker JOB.json RESULT.json"""
import json, random, sys, itertools


def paths(t):
    """id(node) -> path (1-based child indices) for every node reachable by descent"""
    out = {}

    def rec(node, path):
        out[id(node)] = path
        if not hasattr(node, '_firstbucket'):
            return
        st = node.__getstate__()
        if st is None:
            return
        if len(st) == 1:
            rec(node._firstbucket, path + [1])
            return
        for i, x in enumerate(st[0][0::2]):
            rec(x, path + [i + 1])
    rec(t, [])
    return out


def main():
    job = json.load(open(sys.argv[1]))
    from harness import embed, proj as P, minijar
    fam, impl, is_set = job['fam'], job['impl'], job['is_set']
    emb = embed.Embedding(fam, job.get('emb', 'mid'))
    BT, BU, TS, SE = embed.classes(fam, impl)
    cls = TS if is_set else BT
    old = embed.set_sizes([BT, TS], job['leaf'], job['internal'])
    nk, nv = job['nkeys'], (1 if is_set else job.get('nvals', 2))
    rng = random.Random(job['seed'])
    sent = object()

    def run(script):
        """script: list of (op, k, v); returns the events"""
        store = minijar.Store()
        jar = minijar.Jar(store)
        t = cls()
        root = jar.add(t)
        jar.commit()
        events = []
        variant = 0
        for (op, k, v) in script:
            variant += 1
            ev = dict(op=op, k=k, v=v, res=['ok'], regs=[], loaded=0, litems=0, nwritten=0)
            if op in ('setitem', 'delitem', 'clear', 'insertu', 'popmin'):
                pre = paths(t)
                jar.log = []
                keep = []           # keep registered objects alive so that id() stays unique
                try:
                    rk = emb.key(k) if k else None
                    if op == 'setitem':
                        if is_set:
                            [t.add, t.insert, lambda x: t.update([x])][variant % 3](rk)
                        else:
                            rv = emb.val(v)
                            w = variant % 3
                            if w == 0:
                                t[rk] = rv
                            elif w == 1:
                                t.update({rk: rv})
                            else:
                                t.__setitem__(rk, rv)
                    elif op == 'insertu':
                        # a key that is there is left alone (and nothing is announced)
                        if is_set:
                            t.add(rk)
                        elif variant % 2:
                            t.insert(rk, emb.val(v))
                        else:
                            t.setdefault(rk, emb.val(v))
                    elif op == 'popmin':
                        if is_set:
                            t.pop()
                        else:
                            t.popitem()
                    elif op == 'delitem':
                        if is_set and variant % 3 == 0:
                            n0 = len(t)
                            t.discard(rk)
                            if len(t) == n0:
                                raise KeyError(rk)      # (the model's vocabulary for "was not there, nothing happened")
                        elif is_set:
                            t.remove(rk)
                        elif variant % 2:
                            del t[rk]
                        else:
                            t.pop(rk)
                    else:
                        t.clear()
                except KeyError:
                    ev['res'] = ['KeyError']
                except Exception as e:
                    ev['res'] = ['exc', type(e).__name__]
                regs = []
                for what, o in jar.log:
                    if what == 'register':
                        regs.append(pre.get(id(o), [-1]))
                ev['regs'] = regs
                ev['proj'] = P.proj(t, emb, is_set)
            elif op == 'commit':
                written = jar.commit()
                ev['nwritten'] = len(written)
                ev['proj'] = P.proj(t, emb, is_set)
                t2 = minijar.Jar(store).get(root)
                ev['loaded'] = P.proj(t2, emb, is_set)
                try:
                    ks = [emb.rk(x) for x in t2.keys()]
                    vs = [1] * len(ks) if is_set else [emb.rv(x) for x in t2.values()]
                    ev['litems'] = [ks, vs]
                except Exception as e:
                    ev['litems'] = [['exc:' + type(e).__name__], []]
                ev['witems'] = [[emb.rk(x) for x in t.keys()],
                                [1] * len(t) if is_set else [emb.rv(x) for x in t.values()]]
                try:
                    t2._check()
                    ev['lcheck'] = 'ok'
                except AssertionError as e:
                    ev['lcheck'] = str(e)[:80]
            else:
                jar.abort()
                ev['proj'] = P.proj(t, emb, is_set)
            events.append(ev)
        return events

    traces = []
    if job.get('mode') == 'enumerate':
        # every history of the given length over the alphabet (small scope, exhaustive)
        alpha = [('setitem', k, 1) for k in range(1, nk + 1)] + [('delitem', k, 0) for k in range(1, nk + 1)] + \
                [('commit', 0, 0), ('abort', 0, 0)]
        if job.get('extra_ops'):
            alpha += [('insertu', k, 1 if is_set else 2) for k in range(1, nk + 1)] + [('popmin', 0, 0)]
        L = job['length']
        part, nparts = job.get('part', 0), job.get('nparts', 1)
        n = 0
        for script in itertools.product(alpha, repeat=L):
            n += 1
            if n % nparts != part:
                continue
            # prune: histories must end with a commit or abort, no two cuts in a row
            if script[-1][0] not in ('commit', 'abort'):
                continue
            if any(script[i][0] in ('commit', 'abort') and script[i + 1][0] in ('commit', 'abort') for i in range(L - 1)):
                continue
            if script[0][0] in ('commit', 'abort', 'delitem'):
                continue
            traces.append(run(list(script)))
    else:
        for tno in range(job['ntraces']):
            script = []
            present = set()
            committed = set()
            pend = 0
            bias = rng.choice([0.35, 0.5, 0.65])      # shrinking / steady / growing histories
            for step in range(job['length']):
                r = rng.random()
                if pend and r < job.get('pcut', 0.22):
                    if rng.random() < 0.8:
                        script.append(('commit', 0, 0))
                        committed = set(present)
                    else:
                        script.append(('abort', 0, 0))
                        present = set(committed)
                    pend = 0
                    continue
                pend += 1
                if r > 0.985:
                    script.append(('clear', 0, 0))
                    present = set()
                elif present and r > 0.94:
                    script.append(('popmin', 0, 0))
                    present.discard(min(present))
                elif r > 0.86:
                    k = rng.randint(1, nk)
                    script.append(('insertu', k, rng.randint(1, nv)))
                    present.add(k)
                elif present and rng.random() > bias:
                    k = rng.choice(sorted(present)) if rng.random() < 0.9 else rng.randint(1, nk)
                    script.append(('delitem', k, 0))
                    present.discard(k)
                else:
                    k = rng.randint(1, nk)
                    script.append(('setitem', k, rng.randint(1, nv)))
                    present.add(k)
            script.append(('commit', 0, 0))
            traces.append(run(script))
    embed.restore_sizes(old)
    json.dump(dict(traces=traces), open(sys.argv[2], 'w'))


if __name__ == '__main__':
    main()
