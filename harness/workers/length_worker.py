"""C19 conformance: the real BTrees.Length.

usage: python -m harness.workers.length_worker JOB.json RESULT.json"""
import copy, json, pickle, random, sys, itertools


def main():
    job = json.load(open(sys.argv[1]))
    from BTrees.Length import Length
    recs = []
    # resolve on numbers c1*B + c0
    bases = {'2^31': 2 ** 31, '2^63': 2 ** 63, '2^64': 2 ** 64, '2^100': 2 ** 100, '1': 1000003}
    rng = random.Random(job['seed'])
    coefs = list(range(-3, 4))
    grid = list(itertools.product(coefs, repeat=2))
    for bname, B in bases.items():
        for _ in range(job['nresolve']):
            old, a, b = rng.choice(grid), rng.choice(grid), rng.choice(grid)
            val = lambda c: c[0] * B + c[1]
            for (x, y) in ((a, b), (b, a)):          # both commit orders
                res = Length()._p_resolveConflict(val(old), val(x), val(y))
                g1 = (res + B // 2) // B
                g0 = res - g1 * B
                if not isinstance(res, int) or abs(g0) > 100 or abs(g1) > 100:
                    g1, g0 = 'undecomposable', repr(res)
                recs.append(dict(kind='resolve', base=bname, old=list(old), a=list(x), b=list(y), got=[g1, g0]))
    # histories of the cell
    for t in range(job['ntraces']):
        init = rng.randint(-5, 5)
        L = Length(init) if rng.random() < 0.8 else Length()
        if L() != init:
            init = 0
        ev = []
        for _ in range(job['length']):
            op = rng.choice(['set', 'change', 'change', 'call', 'getstate', 'setstate', 'pickle', 'copy'])
            arg, got = 0, 0
            if op == 'set':
                arg = rng.randint(-9, 9); L.set(arg)
            elif op == 'change':
                arg = rng.randint(-4, 4); L.change(arg)
            elif op == 'call':
                got = L()
            elif op == 'getstate':
                got = L.__getstate__()
            elif op == 'setstate':
                arg = rng.randint(-9, 9); L.__setstate__(arg)
            elif op == 'pickle':
                proto = rng.randint(0, 5)
                L2 = pickle.loads(pickle.dumps(L, proto))
                got = L2()
                if rng.random() < 0.5:
                    L = L2
            elif op == 'copy':
                L2 = copy.deepcopy(L) if rng.random() < 0.5 else copy.copy(L)
                got = L2()
                if rng.random() < 0.5:
                    L = L2
            ev.append(dict(op=op, arg=arg, got=got, after=L.value))
        recs.append(dict(kind='trace', init=init, events=ev))
    json.dump(dict(records=recs), open(sys.argv[2], 'w'))


if __name__ == '__main__':
    main()
