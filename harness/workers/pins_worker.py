"""C05 conformance, layer 2 (C implementation, object keys): what is pinned at
every key comparison inside get / set / delete, and cache sweeps fired *inside*
a call, at its j-th comparison.

For every (shape, call) of the TLC dump (Cmp!DumpEv): the stored tree is built
in that shape with instrumented keys; the call runs while every rich comparison
reports (operator, operands, set of pinned nodes); the report must be exactly
the sequence Cmp.tla predicts.  Then the call is repeated once per comparison
index j with cache.minimize() fired inside the j-th comparison: same result,
same comparisons, same tree afterwards, nothing pinned after the return.

usage: python -m harness.workers.pins_worker JOB.json RESULT.json"""
import json, sys


def main():
    job = json.load(open(sys.argv[1]))
    from harness import embed, proj as P, minijar, graph, keys
    from harness.workers.persist_worker import paths
    impl, is_set = job['impl'], job['is_set']
    emb = keys.KEmb()
    BT, BU, TS, SE = embed.classes('OO', impl)
    cls = TS if is_set else BT
    old = embed.set_sizes([BT, TS], job['leaf'], job['internal'])
    with open(job['dump']) as fh:
        payloads = json.load(fh)['payloads']
    g = graph.Graph(payloads)
    with open(job['events']) as fh:
        expected = json.load(fh)['payloads']
    rexpected = {}
    if job.get('revents'):
        # CmpRange!DumpEvR: expected comparison events of the range calls, per shape
        with open(job['revents']) as fh:
            for ent in json.load(fh)['payloads']:
                rexpected[graph.key(ent['tree'])] = ent
    K = keys.K
    mism, counts = [], dict(calls=0, comparisons=0, sweeps=0)

    def build(path_acts):
        store = minijar.Store()
        jar = minijar.Jar(store)
        t = cls()
        for a in path_acts:
            k = K(a['k'])
            if a['op'] == 'setitem':
                if is_set:
                    t.add(k)
                else:
                    t[k] = emb.val(a['v'])
            elif a['op'] == 'delitem':
                if is_set:
                    t.remove(k)
                else:
                    del t[k]
        jar.add(t)
        jar.commit()
        return store, jar, t

    def call(t, op, k):
        try:
            if op == 'get':
                if is_set:
                    return ['v', 1 if K(k) in t else 0]
                x = t.get(K(k), None)
                return ['v', 0 if x is None else emb.rv(x)]
            if op == 'set':
                if is_set:
                    t.add(K(k))
                else:
                    t[K(k)] = emb.val(1)
                return ['ok']
            if op == 'pop':
                return ['v', emb.rv(t.pop(K(k)))]
            if op == 'sdf':
                return ['v', emb.rv(t.setdefault(K(k), emb.val(1)))]
            if op == 'ins':
                return ['v', t.insert(K(k), emb.val(1))]
            if op == 'popmin':
                x = t.popitem()
                return ['v', x[0].v, emb.rv(x[1])]
            if op == 'popmins':
                return ['v', t.pop().v]
            if is_set:
                t.remove(K(k))
            else:
                del t[K(k)]
            return ['ok']
        except KeyError:
            return ['KeyError']
        except Boom:
            return ['Boom']
        except Exception as e:
            import traceback
            return ['exc', type(e).__name__, traceback.format_exc()[-1500:]]

    class Boom(Exception):
        pass

    def run(path_acts, op, k, sweep_at=None, fail_at=None):
        store, jar, t = build(path_acts)
        pm = paths(t)                               # id(node) -> path; everything is loaded and unchanged now
        nodes = {}
        def collect(node, path):
            nodes[tuple(path)] = node
            if hasattr(node, '_firstbucket'):
                st = node.__getstate__()
                if st is None:
                    return
                if len(st) == 1:
                    collect(node._firstbucket, path + [1])
                else:
                    for i, x in enumerate(st[0][0::2]):
                        collect(x, path + [i + 1])
        collect(t, [])
        log = []

        def hook(kind, a, b):
            sticky = sorted(list(p) for p, n in nodes.items() if n._p_state == 2)
            log.append([kind, a.v, b.v, sticky])
            if sweep_at is not None and len(log) - 1 == sweep_at:
                jar.cache.minimize()
                # ... and an explicit request to every node: a node that is in use (pinned) must refuse it
                for n_ in list(nodes.values()):
                    n_._p_deactivate()
            if fail_at is not None and len(log) - 1 == fail_at:
                raise Boom('comparison %d' % fail_at)
        keys.HOOK[0] = hook
        try:
            res = call(t, op, k)
        finally:
            keys.HOOK[0] = None
        left = sorted(list(p) for p, n in nodes.items() if n._p_state == 2)
        left += [['cache', int.from_bytes(oid, 'big')] for oid, o in jar.cache.items() if o._p_state == 2]
        return res, log, left, P.proj(t, emb, is_set)

    for ei in job['indices']:
        ent = expected[ei]
        tree = ent['tree']
        path_acts = [payloads[pi]['act'] for pi in g.path_to(tree)]
        # (composite calls, where the specification has them: pop, setdefault, insert, popitem / pop-smallest)
        extra = [o for o in ((['popmins'] if is_set else ['pop', 'sdf', 'ins', 'popmin'])) if o in ent['calls']]
        for op in ['get', 'set', 'del'] + extra:
            per_k = ent['calls'][op]
            for k in range(1, len(per_k) + 1):
                evs = per_k[k - 1]
                want = []
                for e in evs:
                    pinned = sorted(e['pinned'])
                    want.append(['lt', e['lhs'], e['rhs'], pinned])
                    # (popitem / pop-smallest look the stored key object itself up: PyObject_RichCompareBool answers == for
                    # identical objects without calling __eq__)
                    if not e['lhs'] < e['rhs'] and not (op in ('popmin', 'popmins') and e['lhs'] == e['rhs']):
                        want.append(['eq', e['lhs'], e['rhs'], pinned])
                counts['calls_' + op] = counts.get('calls_' + op, 0) + 1
                res, log, left, pj = run(path_acts, op, k)
                counts['calls'] += 1
                counts['comparisons'] += len(log)
                where = dict(impl=impl, is_set=is_set, sizes=[job['leaf'], job['internal']], tree=tree, op=op, k=k)
                if log != want:
                    mism.append(dict(where, kind='comparison-events', model=want, real=log))
                if left:
                    mism.append(dict(where, kind='pinned-after-return', real=left))
                for j in (range(len(log)) if job.get('sweeps', True) else ()):
                    res2, log2, left2, pj2 = run(path_acts, op, k, sweep_at=j)
                    counts['sweeps'] += 1
                    if res2 != res or pj2 != pj:
                        mism.append(dict(where, kind='sweep-changes-outcome', sweep_at=j, model=[res, pj], real=[res2, pj2]))
                    # (popitem / pop-smallest: after a sweep the stored keys are fresh copies, no longer identical to the key
                    # minKey() handed out, so __eq__ is called where identity answered before - not a difference in behaviour)
                    def norm(lg):
                        return [x[:3] for x in lg if not (op in ('popmin', 'popmins') and x[0] == 'eq' and x[1] == x[2])]
                    if norm(log2) != norm(log):
                        mism.append(dict(where, kind='sweep-changes-comparisons', sweep_at=j, model=[x[:3] for x in log], real=[x[:3] for x in log2]))
                    if left2:
                        mism.append(dict(where, kind='pinned-after-return', sweep_at=j, real=left2))
                # C05 (and C14): the j-th comparison raises - the exception reaches the caller, the tree is as before, and
                # none of the nodes stays pinned (every one of them can still be evicted)
                for j in (range(len(log)) if job.get('faults', True) else ()):
                    res3, log3, left3, pj3 = run(path_acts, op, k, fail_at=j)
                    counts['faults'] = counts.get('faults', 0) + 1
                    w3 = dict(where, fail_at=j)
                    if res3 != ['Boom']:
                        mism.append(dict(w3, kind='exception-lost', real=res3))
                    if left3:
                        mism.append(dict(w3, kind='pinned-after-exception', real=left3))
                if len(mism) > 30:
                    break
        # range searches, minKey / maxKey and range iteration: the comparison sequence is not specified, but a
        # sweep inside any of their comparisons must not change the answer (taken from a run without sweep) nor
        # the comparisons, and nothing may stay pinned
        nk = len(ent['calls']['get'])
        qs = []
        for lo in range(0, nk + 1):
            for hi in (0, lo, nk - 1, nk):
                for xlo, xhi in ((False, False), (True, True)):
                    qs.append(('keys', lo, hi, xlo, xhi))
        for b in range(1, nk + 1):
            qs += [('minKey', b, 0, False, False), ('maxKey', b, 0, False, False)]
        if job.get('query_every', 1) > 1:
            qs = qs[(ei % job['query_every'])::job['query_every']]
        for q in qs:
            def qcall(t, q=q):
                kind, lo, hi, xlo, xhi = q
                try:
                    if kind == 'keys':
                        kw = dict(min=K(lo) if lo else None, max=K(hi) if hi else None, excludemin=xlo, excludemax=xhi)
                        return ['ks', [x.v for x in (t.keys(**kw) if (lo + hi) % 2 else t.iterkeys(**kw) if hasattr(t, 'iterkeys') else t.keys(**kw))]]
                    return ['v', getattr(t, kind)(K(lo)).v]
                except ValueError:
                    return ['ValueError']
                except Boom:
                    return ['Boom']
                except Exception as e:
                    return ['exc', type(e).__name__]
            saved = call
            call = lambda t, op, k: qcall(t)
            try:
                res, log, left, pj = run(path_acts, 'query', 0)
                counts['calls'] += 1
                where = dict(impl=impl, is_set=is_set, sizes=[job['leaf'], job['internal']], tree=tree, op='%s%s' % (q[0], list(q[1:])), k=0)
                rent = rexpected.get(graph.key(tree))
                if rent is not None:
                    # the comparison sequence and the pinned set at every comparison, as CmpRange.tla predicts them
                    evs = rent['range'][1 if q[3] else 0][q[1]][q[2]] if q[0] == 'keys' else rent['bound'][q[1] - 1]
                    want = []
                    for e in evs:
                        pinned = sorted(e['pinned'])
                        want.append(['lt', e['lhs'], e['rhs'], pinned])
                        if not e['lhs'] < e['rhs']:
                            want.append(['eq', e['lhs'], e['rhs'], pinned])
                    counts['range_calls_predicted'] = counts.get('range_calls_predicted', 0) + 1
                    counts['comparisons'] += len(log)
                    if log != want:
                        mism.append(dict(where, kind='comparison-events', model=want, real=log))
                if left:
                    mism.append(dict(where, kind='pinned-after-return', real=left))
                for j in (range(len(log)) if job.get('sweeps', True) else ()):
                    res2, log2, left2, pj2 = run(path_acts, 'query', 0, sweep_at=j)
                    counts['sweeps'] += 1
                    if res2 != res or pj2 != pj:
                        mism.append(dict(where, kind='sweep-changes-outcome', sweep_at=j, model=[res, pj], real=[res2, pj2]))
                    if [x[:3] for x in log2] != [x[:3] for x in log]:
                        mism.append(dict(where, kind='sweep-changes-comparisons', sweep_at=j, model=[x[:3] for x in log], real=[x[:3] for x in log2]))
                    if left2:
                        mism.append(dict(where, kind='pinned-after-return', sweep_at=j, real=left2))
                for j in (range(len(log)) if job.get('faults', True) else ()):
                    res3, log3, left3, pj3 = run(path_acts, 'query', 0, fail_at=j)
                    counts['faults'] = counts.get('faults', 0) + 1
                    if res3 != ['Boom']:
                        mism.append(dict(where, kind='exception-lost', fail_at=j, real=res3))
                    if left3:
                        mism.append(dict(where, kind='pinned-after-exception', fail_at=j, real=left3))
                    if pj3 != pj:
                        mism.append(dict(where, kind='query-fault-changes-tree', fail_at=j, model=pj, real=pj3))
            finally:
                call = saved
            if len(mism) > 30:
                break
        if len(mism) > 30:
            break
    embed.restore_sizes(old)
    json.dump(dict(counts=counts, mismatches=mism[:40]), open(sys.argv[2], 'w'))


if __name__ == '__main__':
    main()
