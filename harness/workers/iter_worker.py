"""C15 conformance (spec -> code): behaviours simulated by TLC on Iter.tla --
build a tree, open an iterator or a lazy sequence over a range, then step it in
some interleaving with inserts, deletes, pops and clear -- replayed on the real
containers.  C implementation: the outcome of every cursor step (the entry,
StopIteration, RuntimeError, IndexError, the length) must be exactly the
specification's; both implementations: nothing but those outcomes, the node
structure after every step equals the specification's, _check() passes, the
process survives (the job runs in a subprocess; thorough tier on the sanitizer
build).

With job['evict'] (C05): the tree lives in the stand-in data manager; it is committed when the cursor is
opened and the object cache is swept (every up-to-date node becomes a ghost, the leaf the cursor is parked on
included) before every cursor step.  Ghosts are reloaded transparently: every outcome and the structure must
still be exactly the specification's, and no node may stay pinned after a step.  (Behaviours whose tree has,
at the commit, a non-root node with a single leaf child are replayed without the data manager: recorded
finding D18 - that node's record embeds the leaf.)

usage: python -m harness.workers.iter_worker JOB.json RESULT.json"""
import json, sys


def main():
    job = json.load(open(sys.argv[1]))
    from harness import embed, proj as P
    fam, impl, is_set = job['fam'], job['impl'], job['is_set']
    emb = embed.Embedding(fam, 'mid')
    BT, BU, TS, SE = embed.classes(fam, impl)
    cls = TS if is_set else BT
    old = embed.set_sizes([BT, TS], job['leaf'], job['internal'])
    with open(job['dump']) as fh:
        behaviours = json.load(fh)['payloads']      # behaviours written by tlc -simulate (lists of observations)
    sel = behaviours[job['part']::job['nparts']]
    mism, counts = [], dict(behaviours=0, steps=0, cursor_steps=0, outcomes={}, sweeps=0, ghosts_made=0, evict_behaviours=0, skipped_embed=0)
    evict = bool(job.get('evict'))
    persist = bool(job.get('persist'))      # under the data manager without sweeps: committed at open and at the end
    midcommit = bool(job.get('midcommit'))  # ... and before every cursor step (the leaves are up to date when the cursor steps)
    if evict or persist:
        from harness import minijar

    def embeds(p, root=True):
        """a non-root interior node whose only child is a leaf (its record embeds that leaf: finding D18)"""
        if p['t'] == 'L':
            return False
        if not root and len(p['kids']) == 1 and p['kids'][0]['t'] == 'L':
            return True
        return any(embeds(c, False) for c in p['kids'])

    def sweep(jar):
        before = sum(1 for _, o in jar.cache.items() if o._p_changed is not None)
        jar.cache.minimize()
        counts['sweeps'] += 1
        counts['ghosts_made'] += before - sum(1 for _, o in jar.cache.items() if o._p_changed is not None)

    def setify(p):
        if not is_set:
            # (the real values are key-dependent: see vmap)
            if p['t'] == 'L':
                return dict(p, vs=[(k + v) % 3 + 1 for k, v in zip(p['ks'], p['vs'])])
            return dict(p, kids=[setify(c) for c in p['kids']])
        if p['t'] == 'L':
            return dict(p, vs=[1] * len(p['ks']))
        return dict(p, kids=[setify(c) for c in p['kids']])

    def bnd(r):
        return None if r == 0 else emb.key(r)

    def vmap(k, v):
        """model value v of key k -> rank of the real value: neighbouring keys get different values, so that an entry
        made of one key and another key's value shows"""
        return (k + v) % 3 + 1

    for bi, beh in enumerate(sel):
        t = cls()
        jar = None
        if evict or persist:
            store = minijar.Store()
            jar = minijar.Jar(store)
            root_oid = jar.add(t)
        open_embeds = False
        committed = False
        prev_to = None
        cursor, kind, mode = None, 'k', None
        ever = {}           # key rank -> value ranks it has held so far in this behaviour
        exact = True
        counts['behaviours'] += 1
        hist = []
        for step in beh:
            a = step['act']
            op = a['op']
            hist.append([op, a.get('k'), a.get('v')])
            counts['steps'] += 1
            got = ['-']
            try:
                if op == 'setitem':
                    ever.setdefault(a['k'], set()).add(1 if is_set else vmap(a['k'], a['v']))
                    if is_set:
                        t.add(emb.key(a['k']))
                    else:
                        t[emb.key(a['k'])] = emb.val(vmap(a['k'], a['v']))
                elif op == 'delitem':
                    try:
                        if is_set:
                            t.remove(emb.key(a['k']))
                        else:
                            del t[emb.key(a['k'])]
                    except KeyError:
                        pass
                elif op == 'popitem':
                    if is_set:
                        t.pop()
                    else:
                        t.popitem()
                elif op == 'clear':
                    t.clear()
                elif op == 'open':
                    if jar is not None:
                        if prev_to is not None and embeds(prev_to):
                            counts['skipped_embed'] += 1
                            open_embeds = True
                        else:
                            jar.commit()
                            committed = evict
                            counts['evict_behaviours'] += 1
                            if evict:
                                sweep(jar)
                    mode = a['mode']
                    # (items twice as often as keys / values: pairs are where a key and a value can come apart)
                    kind = 'k' if is_set else 'ikiv'[(bi + len(hist)) % 4]
                    kw = dict(min=bnd(a['k']), max=bnd(a['v']), excludemin=a['xmin'], excludemax=a['xmax'])
                    if mode == 'iter':
                        f = {'k': 'iterkeys', 'v': 'itervalues', 'i': 'iteritems'}[kind]
                        if a['k'] == 0 and a['v'] == 0 and not a['xmin'] and not a['xmax'] and kind == 'k' and bi % 2:
                            cursor = iter(t)
                        elif hasattr(t, f):
                            cursor = getattr(t, f)(**kw)
                        else:
                            # TreeSets have no iterkeys(): iterating a lazy sequence goes through the generic
                            # sequence iterator (seq[0], seq[1], ...), not BTreeIter -- outcomes are checked
                            # against the property only, not against the BTreeIter transcription
                            cursor = iter(t.keys(**kw))
                            exact = False
                    else:
                        f = {'k': 'keys', 'v': 'values', 'i': 'items'}[kind]
                        cursor = getattr(t, f)(**kw)
                elif op in ('next', 'getitem', 'len'):
                    counts['cursor_steps'] += 1
                    if committed:
                        sweep(jar)
                    elif midcommit and jar is not None:
                        jar.commit()
                    try:
                        if op == 'next':
                            x = next(cursor)
                        elif op == 'getitem':
                            x = cursor[a['k']]
                        else:
                            x = len(cursor)
                        if op == 'len':
                            got = ['len', x]
                        elif kind == 'k':
                            got = ['entry', emb.rk(x), None]
                        elif kind == 'v':
                            got = ['entry', None, emb.rv(x)]
                        else:
                            got = ['entry', emb.rk(x[0]), emb.rv(x[1])]
                    except StopIteration:
                        got = ['stop']
                    except RuntimeError:
                        got = ['RuntimeError']
                    except IndexError:
                        got = ['IndexError']
            except Exception as e:
                got = ['exc', type(e).__name__, str(e)[:60]]
            counts['outcomes'][got[0]] = counts['outcomes'].get(got[0], 0) + 1
            where = dict(fam=fam, impl=impl, is_set=is_set, sizes=[job['leaf'], job['internal']], history=list(hist))
            want = step['out'] if impl == 'c' else step.get('pout', step['out'])
            if got[0] not in ('-', 'entry', 'stop', 'RuntimeError', 'IndexError', 'len'):
                mism.append(dict(where, kind='outcome-outside-the-property', real=got))
            elif got[0] == 'entry' and any(isinstance(x, str) for x in got[1:]):
                mism.append(dict(where, kind='entry-is-not-an-entry', real=got))
            elif got[0] == 'entry' and ((got[1] is not None and got[1] not in ever) or
                                        (got[1] is not None and got[2] is not None and not is_set and got[2] not in ever.get(got[1], ()))):
                # "yields some entry": a key that was stored at some time, with a value that key has held
                mism.append(dict(where, kind='entry-was-never-stored', real=got, held={k: sorted(v) for k, v in ever.items()}))
            elif (impl == 'c' and exact) or (impl == 'py' and not evict and 'pout' in step):
                # exact: same outcome; of an entry the recorded component(s)
                ok = got[0] == want[0]
                if ok and got[0] == 'entry':
                    ok = (got[1] is None or got[1] == want[1]) and (got[2] is None or is_set or got[2] == vmap(want[1], want[2]))
                if ok and got[0] == 'len':
                    ok = got[1] == want[1]
                if not ok:
                    mism.append(dict(where, kind='cursor-outcome', model=want, real=got))
            if op == 'next' and got[0] in ('RuntimeError', 'stop') and mode == 'iter':
                # in the specification INext is then a self-loop (the cursor is parked beyond everything, resp. the
                # iteration is over): taking it again and again gives the same outcome and changes nothing
                for _ in range(3):
                    counts['cursor_steps'] += 1
                    try:
                        x = next(cursor)
                        again = ['entry', repr(x)[:40]]
                    except StopIteration:
                        again = ['stop']
                    except RuntimeError:
                        again = ['RuntimeError']
                    except Exception as e:
                        again = ['exc', type(e).__name__]
                    counts['outcomes']['again-' + again[0]] = counts['outcomes'].get('again-' + again[0], 0) + 1
                    if (again != got) if ((impl == 'c' and exact) or (impl == 'py' and not evict)) else (again[0] not in ('entry', 'stop', 'RuntimeError', 'IndexError')):
                        mism.append(dict(where, kind='sticky-outcome', model=got, real=again))
                        break
            if committed or (midcommit and jar is not None):
                pinned = [int.from_bytes(oid, 'big') for oid, o in jar.cache.items() if getattr(o, '_p_state', 0) == 2]
                if pinned:
                    mism.append(dict(where, kind='pinned-after-step', real=pinned))
            prev_to = step['to']
            rp = P.proj(t, emb, is_set)
            if rp != setify(step['to']):
                mism.append(dict(where, kind='structure', model=setify(step['to']), real=rp))
                break
        try:
            t._check()
        except Exception as e:
            mism.append(dict(fam=fam, impl=impl, is_set=is_set, sizes=[job['leaf'], job['internal']], history=hist, kind='checker', real=str(e)[:80]))
        if persist and not midcommit and prev_to is not None and not open_embeds and not embeds(prev_to) and len(prev_to.get('kids', [])) >= 2:
            # "holds exactly the contents implied by the mutations" - also for the database: whatever the cursor did while the
            # tree was being changed, the changes are still announced; a fresh reader sees the writer's contents.  (Trees
            # that were or end as a one-leaf root, or have a non-root single-leaf node at a commit, are left out: finding D18)
            try:
                jar.commit()
                t2 = minijar.Jar(store).get(root_oid)
                wk = [emb.rk(x) for x in t.keys()]
                rk_ = [emb.rk(x) for x in t2.keys()]
                counts['persist_checked'] = counts.get('persist_checked', 0) + 1
                if wk != rk_:
                    mism.append(dict(fam=fam, impl=impl, is_set=is_set, sizes=[job['leaf'], job['internal']], history=hist,
                                     kind='reader-differs-after-cursor-use', model=wk, real=rk_))
                else:
                    t2._check()
            except Exception as e:
                mism.append(dict(fam=fam, impl=impl, is_set=is_set, sizes=[job['leaf'], job['internal']], history=hist,
                                 kind='commit-after-cursor-use', real='%s: %s' % (type(e).__name__, str(e)[:80])))
        del cursor
        if len(mism) > 40:
            break
    embed.restore_sizes(old)
    json.dump(dict(counts=counts, mismatches=mism[:50]), open(sys.argv[2], 'w'))


if __name__ == '__main__':
    main()
