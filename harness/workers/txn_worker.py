"""C08 conformance: two-transaction scenarios on the real containers over
two stand-in connections.  Per scenario: build the base tree through the API
(path from the TLC dump), commit it; load it on two connections; run T1's and
T2's operations; commit T1, then T2; a third connection loads the result.
Recorded: read dependencies declared by each transaction (positions in the
base tree), results of the operations, outcome of the second commit (with the
reason code of a refused resolution), the loaded tree.  Nothing is judged here.

usage: python -m harness.workers.txn_worker JOB.json RESULT.json"""
import json, random, sys


def main():
    job = json.load(open(sys.argv[1]))
    from harness import embed, proj as P, minijar, graph
    from harness.workers.persist_worker import paths
    fam, impl, is_set = job['fam'], job['impl'], job['is_set']
    emb = embed.Embedding(fam, job.get('emb', 'mid'))
    BT, BU, TS, SE = embed.classes(fam, impl)
    cls = TS if is_set else BT
    if job.get('subclass'):
        # a user subclass of the tree class (node sizes of its own); stored by reference, so it must be importable:
        # it is put into this worker's __main__ module.  Interior nodes are instances of the subclass.
        cls = type('Sub' + cls.__name__, (cls,), dict(max_leaf_size=job['leaf'], max_internal_size=job['internal']))
        cls.__module__ = '__main__'
        setattr(sys.modules['__main__'], cls.__name__, cls)
    old = embed.set_sizes([BT, TS], job['leaf'], job['internal'])
    nk, nv = job['nkeys'], (1 if is_set else 2)
    rng = random.Random(job['seed'])
    with open(job['dump']) as fh:
        payloads = json.load(fh)['payloads']
    g = graph.Graph(payloads)
    states = g.states()

    def do(t, op):
        kind, k, v = op
        try:
            if kind == 'set':
                if is_set:
                    t.add(emb.key(k))
                else:
                    t[emb.key(k)] = emb.val(v)
            elif kind == 'del':
                if is_set:
                    t.remove(emb.key(k))
                else:
                    del t[emb.key(k)]
            else:
                t.clear()
            return ['ok']
        except KeyError:
            return ['KeyError']

    def run_txn(jar, t, ops, base_paths):
        jar.log = []
        res = [do(t, op) for op in ops]
        rc, seen = [], set()
        for what, o in jar.log:
            if what == 'readCurrent' and id(o) not in seen:
                seen.add(id(o))
                rc.append(base_paths.get(id(o), [-1]))
        return res, rc

    def rand_op():
        r = rng.random()
        if r < 0.04:
            return ['clear', 0, 0]
        k = rng.randint(1, nk + 1)
        if r < 0.55:
            return ['set', k, rng.randint(1, nv)]
        return ['del', k, 0]

    recs = []
    damaged = 0
    for si in job['indices']:
        st = states[si]
        path = []
        for pi in g.path_to(st):
            a = payloads[pi]['act']
            if a['op'] == 'setitem':
                path.append(['set', a['k'], 1 if is_set else a['v']])
            elif a['op'] == 'delitem':
                path.append(['del', a['k'], 0])
            else:
                path = None
                break
        if path is None:
            continue
        for rep in range(job['per_state']):
            store = minijar.Store()
            w = minijar.Jar(store)
            t = cls()
            root = w.add(t)
            w.commit()
            each = rng.random() < 0.4
            for op in path:
                do(t, op)
                if each:
                    w.commit()
            w.commit()
            wbase = P.proj(t, emb, is_set)
            j1, j2 = minijar.Jar(store), minijar.Jar(store)
            t1, t2 = j1.get(root), j2.get(root)
            base = P.proj(t1, emb, is_set)
            if base != wbase:
                # the committed base itself is damaged (recorded finding D18): not a scenario
                damaged += 1
                continue
            p1, p2 = paths(t1), paths(t2)
            ops1 = [rand_op() for _ in range(1 if rng.random() < 0.7 else 2)]
            ops2 = [rand_op() for _ in range(1 if rng.random() < 0.7 else 2)]
            if job.get('targeted') and rng.random() < 0.5 and st['kids']:
                # the dangerous pairs: one side changes structure near the other's leaf-local change
                ks = P.flatten(st)[0]
                k = rng.choice(ks)
                ops1 = [rng.choice([['del', k, 0], ['clear', 0, 0], ['set', k, nv]])]
                near = [x for x in range(max(1, k - 2), k + 3)]
                ops2 = [['set', rng.choice(near), 1]] if rng.random() < 0.6 else [['del', rng.choice(near), 0]]
                if rng.random() < 0.5:
                    ops1, ops2 = ops2, ops1
            res1, rc1 = run_txn(j1, t1, ops1, p1)
            res2, rc2 = run_txn(j2, t2, ops2, p2)
            j1.commit()
            rec = dict(path=path, each=each, ops1=ops1, ops2=ops2, base=base, rc1=rc1, rc2=rc2, res1=res1, res2=res2,
                       kind='ok', reason=-1, loaded=0, litems=0)
            try:
                j2.commit()
            except minijar.ReadConflictError:
                rec['kind'] = 'readconflict'
            except minijar.ConflictError:
                rec['kind'] = 'conflict'
                rs = [r for _, r in j2.resolved if r is not None]
                rec['reason'] = rs[-1] if rs and isinstance(rs[-1], int) else 'exc:%s' % (rs[-1] if rs else '?')
            if rec['kind'] == 'ok':
                t3 = minijar.Jar(store).get(root)
                rec['loaded'] = P.proj(t3, emb, is_set)
                try:
                    ks = [emb.rk(x) for x in t3.keys()]
                    vs = [1] * len(ks) if is_set else [emb.rv(x) for x in t3.values()]
                    rec['litems'] = [ks, vs]
                except Exception as e:
                    rec['litems'] = [['exc:' + type(e).__name__], []]
                try:
                    t3._check()
                    rec['lcheck'] = 'ok'
                except AssertionError as e:
                    rec['lcheck'] = str(e)[:80]
            recs.append(rec)
    embed.restore_sizes(old)
    json.dump(dict(recs=recs, damaged=damaged), open(sys.argv[2], 'w'))


if __name__ == '__main__':
    main()
