"""Replay TLC-explored transitions into the real containers (spec -> code).

usage: python -m harness.workers.replay_worker JOB.json RESULT.json

The job names: dump file (payloads), family, impl ('c'|'py'), kind
('tree'|'leaf'), embedding, node sizes, the transition indices to replay and
the property-specific observations to make at the end of each replay.
Nothing is judged here beyond equality with the values TLC printed."""
import json, sys, pickle, copy, time, hashlib


def main():
    job = json.load(open(sys.argv[1]))
    from harness import embed, proj as P, api, graph
    with open(job['dump']) as fh:
        payloads = json.load(fh)['payloads']
    g = graph.Graph(payloads)
    fam, impl, kind = job['fam'], job['impl'], job['kind']
    is_set = job['is_set']
    emb = embed.Embedding(fam, job.get('emb', 'mid'))
    BT, BU, TS, SE = embed.classes(fam, impl)
    cls = (TS if is_set else BT) if kind == 'tree' else (SE if is_set else BU)
    leafcls = SE if is_set else BU
    old = embed.set_sizes([BT, TS], job['leaf'], job['internal'])
    apply = api.apply_set if is_set else api.apply_map
    observe = api.observe_set if is_set else api.observe_map
    nkeys = job['nkeys']
    flags = set(job.get('flags', []))
    import BTrees.check
    mism = []
    counts = dict(replayed=0, steps=0, checks=0)
    seedh = job.get('seed', 0)

    def variant(i, j):
        return int(hashlib.md5(('%d/%d/%d' % (seedh, i, j)).encode()).hexdigest()[:6], 16)

    def model_leaf(p):
        # kind == 'leaf': the model tree is a root over one leaf (or empty)
        if not p['kids']:
            return {'t': 'L', 'ks': [], 'vs': [], 'nx': 0}
        return dict(p['kids'][0], nx=0)

    def setify(p):
        # a mapping-valued dump replayed on a set: values are not there
        if not is_set:
            return p
        if p['t'] == 'L':
            return dict(p, vs=[1] * len(p['ks']))
        return dict(p, kids=[setify(c) for c in p['kids']])

    def setify_res(op, r):
        if not is_set:
            return r
        if r[0] == 'v' and op in ('setdefault', 'pop'):
            return ['v', 1]
        if r[0] == 'kv':
            return ['kv', r[1], 1]
        return r

    def realproj(t):
        if kind == 'tree':
            return P.proj(t, emb, is_set)
        return P.proj_leaf(t, emb, is_set)

    for ti in job['indices']:
        tr = payloads[ti]
        path = g.path_to(tr['from'])
        t = cls()
        for j, pi in enumerate(path):
            apply(t, emb, payloads[pi]['act'], variant(ti, j))
        counts['steps'] += len(path) + 1
        if 'check_from' in flags:
            rp = realproj(t)
            want = setify(tr['from'] if kind == 'tree' else model_leaf(tr['from']))
            if rp != want:
                mism.append(dict(kind='from-state', ti=ti, act=tr['act'], model=want, real=rp))
                continue
        var = variant(ti, 9999)
        r = apply(t, emb, tr['act'], var)
        counts['replayed'] += 1
        want = setify(tr['to'] if kind == 'tree' else model_leaf(tr['to']))
        rp = realproj(t)
        wres = setify_res(tr['act']['op'], tr['res'])
        where = dict(fam=fam, impl=impl, kind=kind, is_set=is_set, emb=job.get('emb', 'mid'),
                     sizes=[job['leaf'], job['internal']], ti=ti, variant=var,
                     path=[payloads[pi]['act'] for pi in path], act=tr['act'])
        if r != wres:
            mism.append(dict(where, kind='result', model=wres, real=r))
        if rp != want:
            mism.append(dict(where, kind='structure', model=want, real=rp))
        if 'observe' in flags:
            ks, vs = P.flatten(want)
            ob = observe(t, emb, nkeys)
            exp = dict(has=[1 if r_ in ks else 0 for r_ in range(1, nkeys + 1)], len=len(ks),
                       bool=bool(ks), keys=ks, keys2=ks)
            if not is_set:
                exp.update(get=[vs[ks.index(r_)] if r_ in ks else 0 for r_ in range(1, nkeys + 1)],
                           items=[[a, b] for a, b in zip(ks, vs)], values=vs)
            counts['checks'] += len(exp)
            if ob != exp:
                mism.append(dict(where, kind='observe', model=exp, real=ob))
        if 'checkers' in flags and kind == 'tree':
            try:
                t._check()
                BTrees.check.check(t)
                counts['checks'] += 2
            except Exception as e:
                mism.append(dict(where, kind='checker', model='accept', real='%s: %s' % (type(e).__name__, e)))
        if len(mism) > 40:
            break
    embed.restore_sizes(old)
    json.dump(dict(counts=counts, mismatches=mism[:40], nmism=len(mism)), open(sys.argv[2], 'w'), default=repr)


if __name__ == '__main__':
    main()
