"""C05 conformance, layer 1 (all families, C and Python): histories of reads
and writes on a stored container with cache sweeps between the calls --
cache.minimize() (everything evictable becomes a ghost) or one node's
_p_deactivate() -- and commits/aborts in between.  One event per call, after
it returned:

  op, k, v / lo, hi, xlo, xhi     the call
  res                             normalised result (also for failing calls)
  regs, rcs                       objects that registered / were declared as read dependencies (paths before the call)
  sticky                          objects of the cache still pinned after the call returned (must be none)
  proj                            the writer's node structure afterwards (not after an evict event: looking would reload)

usage: python -m harness.workers.evict_worker JOB.json RESULT.json"""
import json, random, sys


def main():
    job = json.load(open(sys.argv[1]))
    from harness import embed, proj as P, minijar, api
    from harness.workers.persist_worker import paths
    fam, impl, is_set = job['fam'], job['impl'], job['is_set']
    # (object keys: None is a key of the 'ext' embedding but means "no bound" in a range call)
    emb = embed.Embedding(fam, 'mid' if fam[0] == 'O' else job.get('emb', 'mid'))
    kkeys = bool(job.get('kkeys'))
    if kkeys:
        from harness import keys
        emb = keys.KEmb()       # instrumented object keys: a cache sweep can be fired inside a comparison
    BT, BU, TS, SE = embed.classes(fam, impl)
    cls = TS if is_set else BT
    old = embed.set_sizes([BT, TS], job['leaf'], job['internal'])
    nk, nv = job['nkeys'], (1 if is_set else 2)
    rng = random.Random(job['seed'])
    sent = object()

    def bound(r):
        return None if r == 0 else emb.key(r)

    def sticky_of(jar):
        out = []
        for oid, o in jar.cache.items():
            if getattr(o, '_p_state', 0) == 2:
                out.append(int.from_bytes(oid, 'big'))
        return out

    traces = []
    for tno in range(job['ntraces']):
        store = minijar.Store()
        jar = minijar.Jar(store)
        t = cls()
        jar.add(t)
        jar.commit()
        events = []
        present = set()
        committed = set()
        script = []
        mood = rng.choice(['asc', 'desc', 'rnd', None, None]) if job.get('grow') else None
        for step in range(job['length']):
            if mood and rng.random() < 0.3:
                # everything stored and then evicted: the next call finds nothing but ghosts, and loads its path only
                script += ['commit', 'evictall', 'any']
            elif rng.random() < 0.12:
                # a burst of queries, each on a freshly swept cache (every node a ghost)
                for _ in range(5):
                    script += ['evictall', 'query']
            else:
                script.append('any')
        for kind in script:
            r = rng.random()
            if kind == 'evictall':
                r = 0.0
            elif kind == 'query':
                r = 0.99
            elif kind == 'commit':
                r = 0.25
            ev = dict(op='', k=0, v=0, lo=0, hi=0, xlo=False, xhi=False, path=[], res=['ok'], regs=[], rcs=[], sticky=[], proj=0)
            if r < 0.22:
                # cache sweep; nothing is looked at afterwards (that would load the ghosts again)
                if kind == 'evictall' or rng.random() < 0.6:
                    ev['op'] = 'evictall'
                    jar.cache.minimize()
                else:
                    ev['op'] = 'evict'
                    pm = paths(t)       # (loads what it walks through; the node chosen is then deactivated)
                    objs = {}
                    def collect(node, path):
                        objs[tuple(path)] = node
                        if hasattr(node, '_firstbucket'):
                            st = node.__getstate__()
                            if st is None:
                                return
                            if len(st) == 1:
                                collect(node._firstbucket, path + [1])
                            else:
                                for i, x in enumerate(st[0][0::2]):
                                    collect(x, path + [i + 1])
                    collect(t, [])
                    pth = rng.choice(sorted(objs))
                    ev['path'] = list(pth)
                    objs[pth]._p_deactivate()
                    del objs
                ev['sticky'] = sticky_of(jar)
                events.append(ev)
                continue
            if r < 0.32:
                if kind == 'commit' or rng.random() < 1.0 - job.get('pcut_abort', 0.2):
                    ev['op'] = 'commit'
                    w = jar.commit()
                    ev['nwritten'] = len(w)
                    committed = set(present)
                else:
                    ev['op'] = 'abort'
                    jar.abort()
                    present = set(committed)
                ev['sticky'] = sticky_of(jar)
                ev['proj'] = P.proj(t, emb, is_set)
                events.append(ev)
                continue
            # a call
            pre = None
            writes = ('setitem', 'delitem', 'pop', 'setdefault', 'clear', 'badwrite', 'insertu', 'popmin')
            reads = ('get', 'contains', 'minkey', 'maxkey', 'keys', 'len', 'iter', 'getitem', 'badget', 'badbound',
                     'bool', 'haskey', 'values', 'index', 'badbyvalue')
            op = rng.choice(writes[:2] * 4 + writes[2:] + reads * 2)
            if kind == 'query':
                op = rng.choice(['keys', 'keys', 'keys', 'minkey', 'maxkey', 'contains'])
            if is_set and op in ('pop', 'setdefault', 'get', 'getitem', 'badget'):
                op = 'contains'
            if is_set and op == 'insertu':
                op = 'setitem'
            if op == 'badbyvalue' and (is_set or impl != 'c' or api.bad_val(fam) is api._SENT):     # (Python's byValue converts nothing: finding D50)
                op = 'bool'
            if op == 'clear' and rng.random() < 0.7:
                op = 'setitem'
            k = rng.randint(1, nk)
            if op in ('delitem', 'pop') and present and rng.random() < 0.8:
                k = rng.choice(sorted(present))
            if mood and kind == 'any' and len(events) < 0.75 * len(script) and len(present) < nk and rng.random() < 0.7:
                # growth phase (deep trees: splits of interior nodes and of the root with most of the tree evicted):
                # add an absent key - the smallest / the largest / any
                op = 'setitem'
                absent = sorted(set(range(1, nk + 1)) - present)
                k = absent[0] if mood == 'desc' else absent[-1] if mood == 'asc' else rng.choice(absent)
            v = rng.randint(1, nv)
            ev.update(op=op, k=k, v=v)
            jar.log = []
            if kkeys and rng.random() < 0.7:
                target = rng.randint(0, 7)
                ev['sweep_at'] = target
                cnt = [0]

                def hook(kind, a, b, cnt=cnt, target=target, jar=jar):
                    if cnt[0] == target:
                        jar.cache.minimize()
                    cnt[0] += 1
                keys.HOOK[0] = hook
            # positions of the objects *as the call finds them* cannot be taken without loading ghosts;
            # registered / declared objects are identified by oid and mapped to positions after the call
            try:
                rk = emb.key(k)
                if op == 'setitem':
                    if is_set:
                        t.add(rk)
                    else:
                        t[rk] = emb.val(v)
                    present.add(k)
                elif op == 'delitem':
                    if is_set:
                        t.remove(rk)
                    else:
                        del t[rk]
                    present.discard(k)
                elif op == 'pop':
                    x = t.pop(rk)
                    present.discard(k)
                    ev['res'] = ['v', emb.rv(x)]
                elif op == 'setdefault':
                    x = t.setdefault(rk, emb.val(v))
                    present.add(k)
                    ev['res'] = ['v', emb.rv(x)]
                elif op == 'clear':
                    t.clear()
                    present = set()
                elif op == 'insertu':
                    ev['res'] = ['v', int(t.insert(rk, emb.val(v)))]
                    present.add(k)
                elif op == 'popmin':
                    ev['k'] = min(present) if present else 0
                    if is_set:
                        x = t.pop()
                        ev['res'] = ['kv', emb.rk(x), 1]
                    else:
                        x = t.popitem()
                        ev['res'] = ['kv', emb.rk(x[0]), emb.rv(x[1])]
                    present.discard(min(present))
                elif op == 'badwrite':
                    if is_set:
                        t.add(api.bad_key(fam))
                    else:
                        bv = api.bad_val(fam)
                        if bv is api._SENT or rng.random() < 0.5:
                            t[api.bad_key(fam)] = emb.val(v)
                        else:
                            t[rk] = bv
                elif op == 'get':
                    x = t.get(rk, sent)
                    ev['res'] = ['v', v if x is sent else emb.rv(x)]
                elif op == 'getitem':
                    ev['res'] = ['v', emb.rv(t[rk])]
                elif op == 'contains':
                    ev['res'] = ['v', 1 if rk in t else 0]
                elif op == 'badget':
                    x = t.get(api.bad_key(fam), sent)
                    ev['res'] = ['v', v if x is sent else 'found']
                elif op in ('minkey', 'maxkey'):
                    b = rng.randint(0, nk + 1)
                    ev['k'] = b
                    f = t.minKey if op == 'minkey' else t.maxKey
                    ev['res'] = ['v', emb.rk(f() if b == 0 else f(emb.key(b)))]
                elif op == 'badbound':
                    f = rng.choice([t.minKey, t.maxKey])
                    f(api.bad_key(fam))
                    ev['res'] = ['ok']
                elif op == 'keys':
                    lo, hi = rng.randint(0, nk + 1), rng.randint(0, nk + 1)
                    if present and rng.random() < 0.6:      # bounds on and next to present keys
                        lo = rng.choice(sorted(present)) + rng.choice([0, 0, -1, 1]) if rng.random() < 0.7 else 0
                        hi = rng.choice(sorted(present)) + rng.choice([0, 0, -1, 1]) if rng.random() < 0.7 else 0
                        lo, hi = max(0, min(nk + 1, lo)), max(0, min(nk + 1, hi))
                    xlo, xhi = rng.random() < 0.4, rng.random() < 0.4
                    ev.update(lo=lo, hi=hi, xlo=xlo, xhi=xhi)
                    w = rng.randint(0, 2)
                    kw = dict(min=bound(lo), max=bound(hi), excludemin=xlo, excludemax=xhi)
                    if is_set or w == 0:
                        ev['res'] = ['ks', [emb.rk(x) for x in t.keys(**kw)]]
                    elif w == 1:
                        ev['res'] = ['ks', [emb.rk(x) for x, _ in t.items(**kw)]]
                    else:
                        ev['res'] = ['ks', [emb.rk(x) for x in t.iterkeys(**kw)]]
                elif op == 'len':
                    ev['res'] = ['v', len(t)]
                elif op == 'bool':
                    ev['res'] = ['v', 1 if t else 0]
                elif op == 'badbyvalue':
                    t.byValue(api.bad_val(fam))
                    ev['res'] = ['ok']
                elif op == 'haskey':
                    ev['res'] = ['v', 1 if t.has_key(rk) else 0]
                elif op in ('values', 'index'):
                    lo, hi = rng.randint(0, nk + 1), rng.randint(0, nk + 1)
                    if rng.random() < 0.4:
                        lo = hi = 0
                    xlo, xhi = rng.random() < 0.3, rng.random() < 0.3
                    ev.update(lo=lo, hi=hi, xlo=xlo, xhi=xhi)
                    kw = dict(min=bound(lo), max=bound(hi), excludemin=xlo, excludemax=xhi)
                    if op == 'values':
                        if is_set:
                            ev['res'] = ['ks', [1 for x in t.keys(**kw)]]
                        elif rng.random() < 0.5:
                            ev['res'] = ['ks', [emb.rv(x) for x in t.values(**kw)]]
                        else:
                            ev['res'] = ['ks', [emb.rv(x) for x in t.itervalues(**kw)]]
                    else:
                        i = rng.randint(-nk - 1, nk)
                        ev['k'] = i
                        try:
                            if is_set:
                                ev['res'] = ['kv', emb.rk(t.keys(**kw)[i]), 1]
                            elif rng.random() < 0.5:
                                x = t.items(**kw)[i]
                                ev['res'] = ['kv', emb.rk(x[0]), emb.rv(x[1])]
                            else:
                                seq = t.keys(**kw)
                                x = seq[i]
                                ev['res'] = ['kv', emb.rk(x), emb.rv(t.values(**kw)[i])]
                        except IndexError:
                            ev['res'] = ['IndexError']
                elif op == 'iter':
                    ev['res'] = ['ks', [emb.rk(x) for x in t]]
            except KeyError:
                ev['res'] = ['KeyError']
            except TypeError:
                ev['res'] = ['TypeError']
            except ValueError:
                ev['res'] = ['ValueError']
            except Exception as e:
                ev['res'] = ['exc:' + type(e).__name__]
            if kkeys:
                keys.HOOK[0] = None
            ev['sticky'] = sticky_of(jar)
            ev['nreg'] = len([1 for what, o in jar.log if what == 'register'])
            ev['nrc'] = len({id(o) for what, o in jar.log if what == 'readCurrent'})
            try:
                ev['proj'] = P.proj(t, emb, is_set)
            except Exception as e:
                # the container cannot even be walked any more: an impossible structure is recorded
                # (it cannot match the specification) and the history ends here
                ev['proj'] = {'t': 'I', 'kids': [], 'seps': [], 'fb': 999}
                ev['broken'] = '%s: %s' % (type(e).__name__, e)
                events.append(ev)
                break
            events.append(ev)
        traces.append(events)
    embed.restore_sizes(old)
    json.dump(dict(traces=traces), open(sys.argv[2], 'w'))


if __name__ == '__main__':
    main()
