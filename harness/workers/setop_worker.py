"""C10 / C12 conformance: set algebra and weighted operations on real
containers for operand pairs over a small universe.

usage: python -m harness.workers.setop_worker JOB.json RESULT.json"""
import itertools, json, random, sys
from fractions import Fraction


def main():
    job = json.load(open(sys.argv[1]))
    from harness import embed, proj as P
    fam, impl = job['fam'], job['impl']
    emb = embed.Embedding(fam, job.get('emb', 'mid'))
    mod = embed.module_of(fam)
    suf = 'Py' if impl == 'py' else ''
    BT, BU, TS, SE = embed.classes(fam, impl)
    old = embed.set_sizes([BT, TS], 2, 2)       # trees are multi-leaf with 3+ keys
    rng = random.Random(job['seed'])
    nk = job['nkeys']
    weighted = job.get('weighted', False)
    float_vals = fam[1] == 'F'
    unsigned = fam[1] in 'UQ'
    one = 2 if (weighted and float_vals) else 1
    kinds = {'Set': SE, 'TreeSet': TS, 'Bucket': BU, 'BTree': BT}
    ghost = bool(job.get('ghost'))
    subclassed = bool(job.get('subclassed'))
    subkinds = {n: type('Sub' + n, (c,), {}) for n, c in kinds.items()}

    def val(v):
        """model value -> real value"""
        if weighted:
            return v / 2.0 if float_vals else v
        return emb.val(v)

    def unval(x):
        if weighted:
            if float_vals:
                f = Fraction(x) * 2
                return int(f) if f.denominator == 1 else 'frac:%r' % x
            return x if isinstance(x, int) and not isinstance(x, bool) else 'val?%r' % (x,)
        return emb.rv(x)

    # ---- operands
    ops = [dict(kind='none', items=[])]
    subsets = [c for r in range(nk + 1) for c in itertools.combinations(range(1, nk + 1), r)]
    for S in subsets:
        for kd in ('Set', 'TreeSet'):
            ops.append(dict(kind=kd, items=[[k, 1] for k in S]))
        for kd in ('Bucket', 'BTree'):
            for pat in (0, 1):
                ops.append(dict(kind=kd, items=[[k, 1 + (k + pat) % 2 + (pat and k == 1)] for k in S]))
    lists = []
    for n in range(0, 4):
        for s in itertools.product(range(1, min(nk, 3) + 1), repeat=n):
            lists.append(dict(kind='list', items=[[k, 1] for k in s]))
    if not weighted:
        ops += lists

    class OldSeq:
        """an iterable that only implements the old sequence protocol (__getitem__ until IndexError)"""
        def __init__(self, xs):
            self.xs = list(xs)

        def __getitem__(self, i):
            return self.xs[i]

    def make(o, form=0):
        if o['kind'] == 'none':
            return None
        if o['kind'] == 'list':
            ks = [emb.key(k) for k, _ in o['items']]
            f = form % 8
            if f == 5 and (fam[0] == fam[1] or fam[1] == 'O') and fam != 'fs' and len(ks) <= nk:
                # the values() view of a tree of the same family: a lazy sequence in *key* order of that tree, so its
                # members come unsorted and repeated like any other iterable's
                h = BT()
                for j, k in enumerate(ks):
                    h[emb.key(j + 1)] = k
                return h.values()
            if f == 6:
                return OldSeq(ks)
            if f == 7:
                return TS(ks).keys()        # (a keys() view: the same keys, sorted and without repetition)
            if f >= 5:
                f = 0
            if f == 0:
                return ks
            if f == 1:
                return tuple(ks)
            if f == 2:
                return iter(ks)
            if f == 3:
                return (k for k in ks)
            return {k: None for k in ks}.keys() if len(set(map(repr, ks))) == len(ks) else ks
        cls = kinds[o['kind']]
        if subclassed and (form + len(o['items'])) % 2:
            cls = subkinds[o['kind']]       # an instance of a user subclass is a container of that kind like any other
        if o['kind'] in ('Set', 'TreeSet'):
            return cls([emb.key(k) for k, _ in o['items']])
        c = cls()
        for k, v in o['items']:
            c[emb.key(k)] = val(v)
        return c

    jars = []

    def ghostify(*objs):
        """C05: the operands live in the data manager, stored and evicted - every node a ghost when the call starts"""
        if not ghost:
            return
        from harness import minijar
        jar = minijar.Jar(minijar.Store())
        for o in objs:
            if o is not None and hasattr(o, '_p_jar') and o._p_jar is None:
                jar.add(o)
        jar.commit()
        jar.cache.minimize()
        jars[:] = [jar]         # (kept alive during the call)

    def contents(x, o):
        """current contents of a real operand, in model form (None for consumed iterators)"""
        if o['kind'] == 'list' and isinstance(x, list):
            return [[emb.rk(k), 1] for k in x]       # a caller's list must keep its order too
        if o['kind'] in ('none', 'list'):
            return None
        if o['kind'] in ('Set', 'TreeSet'):
            return [[emb.rk(k), 1] for k in x]
        return [[emb.rk(k), unval(v)] for k, v in x.items()]

    def render(res, a_obj, b_obj, fname=''):
        if res is None and a_obj is None and b_obj is None:
            return ['same', 1] if fname == 'difference' else ['same', 2]
        if res is b_obj and res is not a_obj:
            return ['same', 2]
        if res is a_obj:
            return ['same', 1]
        name = type(res).__name__
        for kd, cls in kinds.items():
            if type(res) is cls or (subclassed and type(res) is subkinds[kd]):
                name = kd
        if name in ('Set', 'TreeSet'):
            return [name, [[emb.rk(k), 1] for k in res]]
        if name in ('Bucket', 'BTree'):
            return [name, [[emb.rk(k), unval(v)] for k, v in res.items()]]
        return ['kind?' + name]

    recs = {}
    counts = dict(calls=0)

    def add(r):
        recs.setdefault(json.dumps(r, sort_keys=True), r)

    pairs = list(itertools.product(range(len(ops)), repeat=2))
    if len(pairs) > job['maxpairs']:
        pairs = rng.sample(pairs, job['maxpairs'])
    fn = {n: getattr(mod, n + suf) for n in ('union', 'intersection', 'difference')}
    if weighted:
        wfn = {'wunion': getattr(mod, 'weightedUnion' + suf), 'winter': getattr(mod, 'weightedIntersection' + suf)}
        if float_vals:
            wset = [(0, w) for w in (-3, -1, 0, 1, 2, 5)]          # halves: -1.5 .. 2.5
            B = 1
        else:
            bits = 40 if fam[1] in 'LQ' else 20
            B = 2 ** bits
            wset = [(0, w) for w in ((0, 1, 2, 3) if unsigned else (-2, -1, 0, 1, 3))]
            wset += [(1, 0), (1, 1), (2, 1)] + ([] if unsigned else [(-1, 0), (-1, 2)])

        def wreal(w):
            return (w[1] / 2.0) if float_vals else (w[0] * B + w[1])

        def wun(x):
            if float_vals:
                f = Fraction(x) * 2
                return [0, int(f)] if f.denominator == 1 else 'frac:%r' % x
            if not isinstance(x, int):
                return 'w?%r' % (x,)
            hi = (x + B // 2) // B
            return [hi, x - hi * B]

        def vun(x):
            """result value -> pair (float mode: scaled by 4; int mode: base-B decomposition)"""
            if float_vals:
                f = Fraction(x) * 4
                return [0, int(f)] if f.denominator == 1 else 'frac:%r' % x
            if not isinstance(x, int) or isinstance(x, bool):
                return 'v?%r' % (x,)
            hi = (x + B // 2) // B
            return [hi, x - hi * B]
    for n_, (ia, ib) in enumerate(pairs):
        a, b = ops[ia], ops[ib]
        if weighted:
            for name, f in wfn.items():
                w1, w2 = rng.choice(wset), rng.choice(wset)
                ao, bo = make(a), make(b)
                ghostify(ao, bo)
                try:
                    counts['calls'] += 1
                    wt, res = f(ao, bo, wreal(w1), wreal(w2))
                    if res is None or res is ao or res is bo:
                        got = [wun(wt)] + (['same', 2] if (res is bo and res is not ao) or ao is None else ['same', 1])
                    else:
                        kd = [k for k, c in kinds.items() if type(res) is c or (subclassed and type(res) is subkinds[k])]
                        kd = kd[0] if kd else 'kind?' + type(res).__name__
                        if kd == 'Set':
                            got = [wun(wt), kd, [[emb.rk(k), 1] for k in res]]
                        else:
                            got = [wun(wt), kd, [[emb.rk(k), vun(v)] for k, v in res.items()]]
                except Exception as e:
                    got = ['exc', type(e).__name__]
                add(dict(fn=name, a=a, b=b, w1=list(w1), w2=list(w2), one=one, got=got,
                         ua=contents(ao, a) in (None, a['items']), ub=contents(bo, b) in (None, b['items'])))
            continue
        forms = [('union', lambda x, y: fn['union'](x, y)), ('intersection', lambda x, y: fn['intersection'](x, y))]
        if a['kind'] not in ('list',):
            forms.append(('difference', lambda x, y: fn['difference'](x, y)))
        if a['kind'] not in ('none', 'list') and b['kind'] != 'none':
            forms += [('union', lambda x, y: x | y), ('intersection', lambda x, y: x & y),
                      ('difference', lambda x, y: x - y)]
            if a['kind'] in ('Set', 'TreeSet'):
                forms.append(('xor', lambda x, y: x ^ y))
        if a['kind'] == 'list' and b['kind'] in ('Set', 'TreeSet'):
            # reflected operators: a plain iterable on the left of | & - ^ (rejected with TypeError, or the right answer)
            forms += [('ror', lambda x, y: x | y), ('rand', lambda x, y: x & y), ('rsub', lambda x, y: x - y), ('rxor', lambda x, y: x ^ y)]
        for name, f in forms:
            ao, bo = make(a, n_), make(b, n_ + 1)
            if name in ('ror', 'rand', 'rsub', 'rxor') and type(ao).__name__ == 'dict_keys':
                continue        # (a dict view has set operators of its own)
            ghostify(ao, bo)
            try:
                counts['calls'] += 1
                got = render(f(ao, bo), ao, bo, name)
            except Exception as e:
                got = ['exc', type(e).__name__]
            add(dict(fn=name, a=a, b=b, got=got, ua=contents(ao, a) in (None, a['items']),
                     ub=contents(bo, b) in (None, b['items'])))
        if a['kind'] in ('Set', 'TreeSet') and b['kind'] != 'none':
            ao, bo = make(a, n_), make(b, n_ + 3)
            ghostify(ao, bo)
            try:
                counts['calls'] += 1
                got = ['bool', 1 if ao.isdisjoint(bo) else 0]
            except Exception as e:
                got = ['exc', type(e).__name__]
            add(dict(fn='isdisjoint', a=a, b=b, got=got, ua=contents(ao, a) == a['items'], ub=contents(bo, b) in (None, b['items'])))
            for name in ('ior', 'iand', 'isub', 'ixor'):
                ao, bo = make(a, n_), make(b, n_ + 2)
                ghostify(ao, bo)
                try:
                    counts['calls'] += 1
                    x = ao
                    if name == 'ior':
                        x |= bo
                    elif name == 'iand':
                        x &= bo
                    elif name == 'isub':
                        x -= bo
                    else:
                        x ^= bo
                    got = [a['kind'] if x is ao else 'rebound', [[emb.rk(k), 1] for k in x]]
                except Exception as e:
                    got = ['exc', type(e).__name__]
                add(dict(fn=name, a=a, b=b, got=got, ua=True, ub=contents(bo, b) in (None, b['items'])))
    embed.restore_sizes(old)
    json.dump(dict(records=list(recs.values()), counts=counts), open(sys.argv[2], 'w'))


if __name__ == '__main__':
    main()
