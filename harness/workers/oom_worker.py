"""C17 conformance (C implementation, hook build): fail the n-th allocation of
a call, for every n.

Part A (spec -> code): transitions of the TLC dump (BTreeImpl): the source
state is built through the API, the number of allocations of the call is read
on a clean run (_verif_allocs), and for every n the call is repeated with the
n-th BTree_Malloc/BTree_Realloc failing: MemoryError must reach the caller, the
tree must be the model's source or target state, _check() must pass; then the
call is repeated without a fault (must reach the target state), a follow-up
workload is applied and the result compared with a twin that never saw a
failure.
Part B: other allocating calls on those states (update, constructor, set
algebra, multiunion, conflict merge, __setstate__ / unpickling), allocation
count from a clean run, operands must be unchanged after the MemoryError.

usage: python -m harness.workers.oom_worker JOB.json RESULT.json"""
import json, sys, pickle, importlib


def main():
    job = json.load(open(sys.argv[1]))
    from harness import embed, proj as P, graph, api
    fam, is_set = job['fam'], job['is_set']
    emb = embed.Embedding(fam, 'mid')
    BT, BU, TS, SE = embed.classes(fam, 'c')
    cls = TS if is_set else BT
    leafcls = SE if is_set else BU
    cmod = importlib.import_module('BTrees._%sBTree' % fam)
    M = embed.module_of(fam)
    arm, allocs = cmod._verif_arm, cmod._verif_allocs
    old = embed.set_sizes([BT, TS], job['leaf'], job['internal'])
    with open(job['dump']) as fh:
        payloads = json.load(fh)['payloads']
    g = graph.Graph(payloads)
    nk = job['nkeys']
    apply = api.apply_set if is_set else api.apply_map
    mism, counts = [], dict(calls=0, faults=0, partb_calls=0, partb_faults=0, no_alloc=0)

    def build(path):
        t = cls()
        for pi in path:
            apply(t, emb, payloads[pi]['act'], 0)
        return t

    def setify(p):
        if not is_set:
            return p
        if p['t'] == 'L':
            return dict(p, vs=[1] * len(p['ks']))
        return dict(p, kids=[setify(c) for c in p['kids']])

    def workload(t):
        for r in list(range(1, nk + 1)) + list(range(nk + 1, min(nk + 9, 17))):
            if is_set:
                t.add(emb.key(r))
            else:
                t[emb.key(r)] = emb.val(1 + r % 2)
        for r in (2, 4):
            try:
                if is_set:
                    t.remove(emb.key(r))
                else:
                    del t[emb.key(r)]
            except KeyError:
                pass

    last_allocs = [0]

    def guarded(fn):
        try:
            fn()
            return 'ok'
        except MemoryError:
            return 'MemoryError'
        except KeyError:
            return 'KeyError'
        except Exception as e:
            return 'exc:%s' % type(e).__name__
        finally:
            last_allocs[0] = allocs()
            arm(0)

    def contents(p):
        return P.flatten(p)

    import BTrees.check as BC

    def check(t):
        try:
            t._check()
            BC.check(t)
            return 'ok'
        except Exception as e:
            return '%s: %s' % (type(e).__name__, str(e)[:60])

    # ---- multiunion on both sides of the switch to the radix sort (more than 800 keys: the work buffer, whose failure is
    #      absorbed by falling back to quicksort, and the result vectors): every allocation index fails once
    if job.get('bigmulti') and hasattr(M, 'multiunion') and fam[0] in 'ILUQ':
        import random
        rng = random.Random(7)
        bits = 64 if fam[0] in 'LQ' else 32
        lo_, hi_ = (-(1 << (bits - 1)), (1 << (bits - 1)) - 1) if fam[0] in 'IL' else (0, (1 << bits) - 1)
        for total in (700, 900, 1700):
            ks_ = sorted({rng.randint(lo_, hi_) for _ in range(total)} | {lo_, hi_})
            sh = list(ks_)
            rng.shuffle(sh)
            ops_ = [SE(sh[:total // 3]), sh[total // 3:2 * total // 3], TS(sh[2 * total // 3:]), sh[:7]]
            arm(0)
            res0 = []
            out0 = guarded(lambda: res0.append(list(M.multiunion(ops_))))
            n1 = last_allocs[0]
            counts['partb_calls'] += 1
            if out0 != 'ok' or res0[0] != ks_:
                mism.append(dict(fam=fam, is_set=is_set, sizes=[job['leaf'], job['internal']], op='multiunion-big', total=total, kind='wrong-result-without-fault', real=out0))
                continue
            for n in range(1, n1 + 2):
                got = []
                arm(n)
                out = guarded(lambda: got.append(list(M.multiunion(ops_))))
                counts['partb_faults'] += 1
                if out == 'MemoryError':
                    continue
                if out != 'ok' or got[0] != ks_:
                    mism.append(dict(fam=fam, is_set=is_set, sizes=[job['leaf'], job['internal']], op='multiunion-big %d' % total, fail_at=n, allocations=n1, kind='no-MemoryError', real=out))
            if [list(o) if not isinstance(o, list) else o for o in ops_][0] != sorted(sh[:total // 3]):
                mism.append(dict(fam=fam, is_set=is_set, sizes=[job['leaf'], job['internal']], op='multiunion-big %d' % total, kind='operand-changed'))

    def embeds_(p, root=True):
        if p['t'] == 'L':
            return False
        if not root and len(p['kids']) == 1 and p['kids'][0]['t'] == 'L':
            return True
        return any(embeds_(c, False) for c in p['kids'])

    for ti in job['indices']:
        tr = payloads[ti]
        if tr['act']['op'] in ('badkey', 'badval', 'clear', 'delitem', 'pop', 'popitem'):
            continue
        path = g.path_to(tr['from'])
        if job.get('stored') and tr['act']['op'] in ('setitem', 'insert') and tr['from']['kids']:
            # ---- the same insert on a *stored* tree with every node evicted: loading the nodes on the way allocates too
            #      (their vectors), and a load that fails leaves a ghost behind, not a half-built node
            from harness import minijar

            kept = []

            def stored(keep=False):
                t_ = build(path)
                if keep:
                    # (the leaves stay alive in `kept`: evicted and loaded again they are the same objects, and their
                    #  reference counts can be read off before and after a failed call)
                    kept[:] = P.collect_leaves(t_)
                jar_ = minijar.Jar(minijar.Store())
                # every node gets a record of its own (parents first), so that no leaf is written inline: the tree comes back
                # from the store exactly as it is (the inline form under a database is finding D18)
                todo = [t_]
                while todo:
                    n_ = todo.pop(0)
                    jar_.add(n_)
                    if hasattr(n_, '_firstbucket'):
                        st_ = n_.__getstate__()
                        if st_ is not None:
                            todo.extend([n_._firstbucket] if len(st_) == 1 else list(st_[0][0::2]))
                jar_.commit()
                jar_.log = []           # (the stand-in's call log would keep every node alive)
                del todo, n_, st_
                jar_.cache.minimize()
                return t_, jar_
            before_c = contents(setify(tr['from']))
            done_c = contents(setify(tr['to']))
            if ti % 3 == 0:
                # read-only calls on the stored, evicted tree: every load on their way fails once - MemoryError or the right
                # answer, the tree untouched, and (what the process would not survive) no node released twice
                ks0 = before_c[0]
                hi_ = emb.key(ks0[-1]) if ks0 else None
                queries = [('keys(excludemax)', lambda t_: [emb.rk(x) for x in t_.keys(excludemax=True)], ks0[:-1]),
                           ('keys(excludemin)', lambda t_: [emb.rk(x) for x in t_.keys(excludemin=True)], ks0[1:]),
                           ('keys(max=largest,excludemax)', lambda t_: [emb.rk(x) for x in t_.keys(max=hi_, excludemax=True)], ks0[:-1]),
                           ('len', lambda t_: len(t_), len(ks0)),
                           ('maxKey', lambda t_: emb.rk(t_.maxKey()), ks0[-1] if ks0 else None),
                           ('iter', lambda t_: [emb.rk(x) for x in t_], ks0)]
                for qname, qf, qwant in queries:
                    if not ks0:
                        continue
                    t, jar = stored()
                    arm(0)
                    got_ = []
                    out0 = guarded(lambda: got_.append(qf(t)))
                    nq = last_allocs[0]
                    if out0 != 'ok' or got_[0] != qwant:
                        mism.append(dict(fam=fam, is_set=is_set, sizes=[job['leaf'], job['internal']], act=tr['act'], op='stored ' + qname, kind='wrong-answer-without-fault', real=[out0, got_[:1]]))
                        continue
                    del t, jar
                    for n in range(1, min(nq, 30) + 1):
                        t, jar = stored(keep=True)
                        rc0 = [sys.getrefcount(x) for x in kept]
                        arm(n)
                        got_ = []
                        out = guarded(lambda: got_.append(qf(t)))
                        jar.cache.minimize()
                        rc1 = [sys.getrefcount(x) for x in kept]
                        if rc1 != rc0:
                            mism.append(dict(fam=fam, is_set=is_set, sizes=[job['leaf'], job['internal']], act=tr['act'], op='stored ' + qname,
                                             fail_at=n, allocations=nq, kind='node-references-after-failed-read', real=[b_ - a_ for a_, b_ in zip(rc0, rc1)]))
                            kept[:] = []
                            del t, jar
                            continue
                        counts['stored_query_faults'] = counts.get('stored_query_faults', 0) + 1
                        wq = dict(fam=fam, is_set=is_set, sizes=[job['leaf'], job['internal']], act=tr['act'], op='stored ' + qname, fail_at=n, allocations=nq)
                        if out != 'MemoryError' and not (out == 'ok' and got_[0] == qwant):
                            mism.append(dict(wq, kind='no-MemoryError', real=[out, got_[:1]]))
                        try:
                            if contents(P.proj(t, emb, is_set)) != before_c or check(t) != 'ok':
                                mism.append(dict(wq, kind='changed-by-a-failed-read', real=check(t)))
                        except Exception as e:
                            mism.append(dict(wq, kind='unreadable-after-fault', real=repr(e)[:100]))
                        jar.cache.minimize()
                        del t, jar
                    kept[:] = []
            t, jar = stored()
            arm(0)
            out0 = guarded(lambda: apply(t, emb, tr['act'], 0))
            n1 = last_allocs[0]
            counts['stored_calls'] = counts.get('stored_calls', 0) + 1
            control_ok = False
            try:
                cp_ = P.proj(t, emb, is_set)
                if not embeds_(cp_):
                    jar.commit()
                    t2 = minijar.Jar(jar.store).get(t._p_oid)
                    control_ok = contents(P.proj(t2, emb, is_set)) == contents(cp_) and check(t2) == 'ok'
                    del t2
            except Exception:
                control_ok = False
            del t, jar
            for n in range(1, min(n1, 40) + 1):
                t, jar = stored()
                oids0 = {oid for oid, _ in jar.cache.items()}
                arm(n)
                rr = []
                out = guarded(lambda: rr.append(apply(t, emb, tr['act'], 0)))
                if out == 'ok' and rr and rr[0][0] == 'exc':
                    out = rr[0][1]          # (api.apply reports exceptions as results)
                counts['stored_faults'] = counts.get('stored_faults', 0) + 1
                w2 = dict(fam=fam, is_set=is_set, sizes=[job['leaf'], job['internal']], act=tr['act'], op='stored-insert', fail_at=n, allocations=n1)
                if out != 'MemoryError':
                    mism.append(dict(w2, kind='no-MemoryError', real=out))
                gone = oids0 - {oid for oid, _ in jar.cache.items()}
                if gone:
                    # an insert drops no node: a stored node that left the cache was deallocated although the tree refers to it
                    mism.append(dict(w2, kind='stored-node-deallocated', real=sorted(int.from_bytes(o, 'big') for o in gone)))
                    continue
                try:
                    after_c = contents(P.proj(t, emb, is_set))
                except Exception as e:
                    mism.append(dict(w2, kind='unreadable-after-fault', real=repr(e)[:100]))
                    continue
                if after_c != before_c and after_c != done_c:
                    mism.append(dict(w2, kind='partial-change', real=after_c))
                c = check(t)
                if c != 'ok':
                    mism.append(dict(w2, kind='unsound-after-fault', real=c))
                # what the failed call did change is announced like any other change: after a commit a fresh reader sees the
                # writer's tree.  (Left out: trees with a non-root single-leaf node - finding D18 - and calls whose fault-free
                # run does not survive the commit either.)
                try:
                    after_p = P.proj(t, emb, is_set)
                    if control_ok and not embeds_(after_p):
                        jar.commit()
                        t2 = minijar.Jar(jar.store).get(t._p_oid)
                        counts['stored_commits'] = counts.get('stored_commits', 0) + 1
                        rp = P.proj(t2, emb, is_set)
                        if contents(rp) != contents(after_p) or check(t2) != 'ok':
                            mism.append(dict(w2, kind='reader-differs-after-failed-call', model=contents(after_p), real=[contents(rp), check(t2)]))
                        del t2
                except Exception as e:
                    mism.append(dict(w2, kind='commit-after-failed-call', real=repr(e)[:120]))
                workload(t)
                c = check(t)
                if c != 'ok':
                    mism.append(dict(w2, kind='unsound-after-workload', real=c))
                jar.cache.minimize()
                del t, jar
        before, done = setify(tr['from']), setify(tr['to'])
        t = build(path)
        arm(0)
        r0 = apply(t, emb, tr['act'], 0)
        n0 = allocs()
        counts['calls'] += 1
        where = dict(fam=fam, is_set=is_set, sizes=[job['leaf'], job['internal']], ti=ti, path=[payloads[pi]['act'] for pi in path], act=tr['act'])
        if P.proj(t, emb, is_set) != done:
            mism.append(dict(where, kind='completed-state', model=done, real=P.proj(t, emb, is_set)))
            continue
        if n0 == 0:
            counts['no_alloc'] += 1
        twin = build(path)
        apply(twin, emb, tr['act'], 0)
        workload(twin)
        twinp = P.proj(twin, emb, is_set)
        del twin
        for n in range(1, n0 + 1):
            t = build(path)
            arm(n)
            try:
                r = apply(t, emb, tr['act'], 0)
            finally:
                arm(0)
            counts['faults'] += 1
            w2 = dict(where, fail_at=n, allocations=n0)
            if r != ['exc', 'MemoryError']:
                mism.append(dict(w2, kind='no-MemoryError', real=r))
            after = P.proj(t, emb, is_set)
            # previous contents or the completed change (a leaf left over-full by a failed split is still sound)
            if contents(after) != contents(before) and contents(after) != contents(done):
                mism.append(dict(w2, kind='partial-change', before=before, completed=done, real=after))
            c = check(t)
            if c != 'ok':
                mism.append(dict(w2, kind='unsound-after-fault', real=c))
            # usable: the same call again, then a workload; a twin without failures must look the same
            if after == before:
                r2 = apply(t, emb, tr['act'], 0)
                if r2 != r0 or P.proj(t, emb, is_set) != done:
                    mism.append(dict(w2, kind='follow-up', model=[r0, done], real=[r2, P.proj(t, emb, is_set)]))
            elif contents(after) == contents(before):
                apply(t, emb, tr['act'], 0)
            workload(t)
            if contents(P.proj(t, emb, is_set)) != contents(twinp) or check(t) != 'ok':
                mism.append(dict(w2, kind='diverges-from-twin', model=twinp, real=P.proj(t, emb, is_set), check=check(t)))
            del t
        # ---- part B on the target state
        if job.get('partb') and ti % job.get('partb_every', 5) == 0:
            ks, vs = P.flatten(done)
            extra = [emb.key(r) for r in range(1, min(nk + 6, 16), 2)]
            other = leafcls(extra) if is_set else leafcls({k: emb.val(1) for k in extra})
            othert = cls(other)
            big = [emb.key(r) for r in range(1, 17)]

            def calls(t):
                cs = [('update', lambda: t.update(extra if is_set else [(k, emb.val(2)) for k in extra]), True),
                      ('constructor', lambda: cls(t), False),
                      ('leaf-constructor', lambda: leafcls(t), False),
                      ('union', lambda: M.union(t, other), False),
                      ('intersection', lambda: M.intersection(t, othert), False),
                      ('difference', lambda: M.difference(t, other), False),
                      ('pickle-roundtrip', lambda: pickle.loads(pickle.dumps(t, 2)), False),
                      ('setstate', lambda: cls().__setstate__(t.__getstate__()), False),
                      ('leaf-setstate', lambda: leafcls().__setstate__(other.__getstate__()), False)]
                if is_set:
                    cs += [('|', lambda: t | other, False), ('&', lambda: t & othert, False), ('-', lambda: t - other, False),
                           ('|=', lambda: t.__ior__(other), True), ('^=', lambda: t.__ixor__(other), True)]
                if hasattr(M, 'multiunion'):
                    cs.append(('multiunion', lambda: M.multiunion([t, other, othert, extra] if is_set else [t.keys(), other.keys()]), False))
                if hasattr(M, 'weightedUnion') and not is_set:
                    cs.append(('weightedUnion', lambda: M.weightedUnion(t, othert, 2, 3), False))
                return cs
            t = build(path)
            apply(t, emb, tr['act'], 0)
            names = [c[0] for c in calls(t)]
            del t
            for ci, name in enumerate(names):
                t = build(path)
                apply(t, emb, tr['act'], 0)
                fn, mutates = calls(t)[ci][1], calls(t)[ci][2]
                arm(0)
                out0 = guarded(fn)
                n1 = last_allocs[0]
                after0 = P.proj(t, emb, is_set)
                counts['partb_calls'] += 1
                del t, fn
                if out0 != 'ok':
                    continue
                for n in range(1, min(n1, job.get('partb_cap', 12)) + 1):
                    t = build(path)
                    apply(t, emb, tr['act'], 0)
                    fn = calls(t)[ci][1]
                    arm(n)
                    out = guarded(fn)
                    del fn
                    counts['partb_faults'] += 1
                    w2 = dict(where, op=name, fail_at=n, allocations=n1)
                    after = P.proj(t, emb, is_set)
                    if out not in ('MemoryError',):
                        # (an allocation whose failure is absorbed -- e.g. a work buffer with a fallback -- must still give the right answer)
                        if out != 'ok' or (after != after0):
                            mism.append(dict(w2, kind='no-MemoryError', real=out))
                    if not mutates and after != done:
                        mism.append(dict(w2, kind='operand-changed', model=done, real=after))
                    c = check(t)
                    if c != 'ok':
                        mism.append(dict(w2, kind='unsound-after-fault', real=c))
                    if P.proj(othert, emb, is_set) is None:
                        pass
                    workload(t)
                    if check(t) != 'ok':
                        mism.append(dict(w2, kind='unsound-after-workload', real=check(t)))
                    del t
            # loading state into an object that is then used again (what a data manager does after a failed load:
            # the object is a ghost again and the next access loads the same state into the same object)
            def used_leaf():
                # a leaf that already owns (smaller) vectors: what a data manager reloads after an invalidation
                two = [emb.key(r) for r in (2, 4)]
                src = leafcls(two) if is_set else leafcls({k: emb.val(1) for k in two})
                b = leafcls()
                b.__setstate__(src.__getstate__())      # (loaded: its vectors are exactly two long)
                return b
            bigstate = (leafcls(big) if is_set else leafcls({k: emb.val(1) for k in big})).__getstate__()
            retries = [('leaf-setstate-retry', lambda: leafcls(), lambda: other.__getstate__()),
                       ('used-leaf-setstate-retry', used_leaf, lambda: bigstate),
                       ('tree-setstate-retry', lambda: cls(), lambda: build_done().__getstate__())]
            if hasattr(leafcls, 'fromBytes'):
                # fs leaves: the compact byte form (all keys, then all values) is loaded by a routine of its own
                bigleaf = leafcls({k: emb.val(1) for k in big})
                retries += [('leaf-frombytes-retry', lambda: leafcls(), lambda: other.toBytes()),
                            ('used-leaf-frombytes-retry', used_leaf, lambda: bigleaf.toBytes())]
            for tname, mk, st_of in retries:
                load = (lambda tg, stt: tg.fromBytes(stt)) if 'frombytes' in tname else (lambda tg, stt: tg.__setstate__(stt))
                def build_done():
                    t_ = build(path)
                    apply(t_, emb, tr['act'], 0)
                    return t_
                state = st_of()
                tgt = mk()
                arm(0)
                out0 = guarded(lambda: load(tgt, state))
                n1 = last_allocs[0]
                want_items = [emb.rk(x) for x in tgt.keys()]
                counts['partb_calls'] += 1
                for n in range(1, n1 + 1):
                    tgt = mk()
                    arm(n)
                    out = guarded(lambda: load(tgt, state))
                    counts['partb_faults'] += 1
                    w2 = dict(where, op=tname, fail_at=n, allocations=n1)
                    if out != 'MemoryError':
                        mism.append(dict(w2, kind='no-MemoryError', real=out))
                    out2 = guarded(lambda: load(tgt, state))
                    got_items = [emb.rk(x) for x in tgt.keys()]
                    if out2 != 'ok' or got_items != want_items:
                        mism.append(dict(w2, kind='reload-after-failed-load', model=want_items, real=[out2, got_items]))
                    workload(tgt) if tname.startswith('tree') else [tgt.add(emb.key(r)) if is_set else tgt.__setitem__(emb.key(r), emb.val(1)) for r in (1, 5, 9, 13)]
                    if tname.startswith('tree') and check(tgt) != 'ok':
                        mism.append(dict(w2, kind='unsound-after-workload', real=check(tgt)))
                    # and the other way round: inserts straight after the failed load
                    tgt = mk()
                    arm(n)
                    guarded(lambda: load(tgt, state))
                    for r in (2, 6, 10, 14, 3, 7):
                        if is_set:
                            tgt.add(emb.key(r))
                        else:
                            tgt[emb.key(r)] = emb.val(1)
                    del tgt
            # conflict merge
            b = leafcls()
            def st(ranks):
                if is_set:
                    return (tuple(emb.key(r) for r in ranks),)
                flat = []
                for r in ranks:
                    flat += [emb.key(r), emb.val(1)]
                return (tuple(flat),)
            o = list(ks)
            if o:
                cs_, ns_ = sorted(set(o + [nk + 1, nk + 2])), sorted(set(o + [nk + 3]))
                arm(0)
                out0 = guarded(lambda: b._p_resolveConflict(st(o), st(cs_), st(ns_)))
                n1 = last_allocs[0]
                counts['partb_calls'] += 1
                for n in range(1, n1 + 1):
                    arm(n)
                    out = guarded(lambda: b._p_resolveConflict(st(o), st(cs_), st(ns_)))
                    counts['partb_faults'] += 1
                    if out0 == 'ok' and out != 'MemoryError':
                        mism.append(dict(where, op='resolveConflict', fail_at=n, allocations=n1, kind='no-MemoryError', real=out))
        if len(mism) > 40:
            break
    arm(0)
    embed.restore_sizes(old)
    json.dump(dict(counts=counts, mismatches=mism[:50]), open(sys.argv[2], 'w'))


if __name__ == '__main__':
    main()
