"""C13 - only representable keys and values are stored, and they read back exactly."""
import json
from harness import common, tlc, embed, jobs, judge


def normal(m, e):
    if m == 0:
        return 0, 0
    while m % 2 == 0:
        m //= 2
        e += 1
    return m, e


def run_domain(ck, fams, impls=('c', 'py')):
    plan = [dict(fam=f, impl=i) for f in fams for i in impls]
    results = jobs.run_jobs('harness.workers.domain_worker', plan)
    recs, full = [], []
    for job, res, err in results:
        ident = dict(fam=job['fam'], impl=job['impl'])
        if err:
            ck.violation('domain worker died %s: %s' % (ident, err), dict(ident, kind='crash', err=err))
            continue
        for r in res['records']:
            if not all(isinstance(g, (int, str)) and not isinstance(g, bool) for g in r['got']):
                ck.violation('unrenderable outcome %s' % (r,), dict(ident, kind='domain-malformed', rec=r))
                continue
            recs.append({k: r[k] for k in ('role', 'code', 'x', 'got', 'unchanged', 'lookup')})
            full.append(dict(r, **ident))
    return recs, full


def judge_domain(ck, recs, full):
    # identical records are judged once
    uniq, index = {}, []
    for r in recs:
        k = json.dumps(r, sort_keys=True)
        if k not in uniq:
            uniq[k] = len(uniq)
        index.append(uniq[k])
    ulist = [json.loads(k) for k in uniq]
    bad, summ = judge.judge('JudgeDomain', ulist)
    ck.add_tlc(dict(generated=summ['generated'], distinct=summ['distinct'], wall_s=round(summ['wall_s'], 1)),
               'JudgeDomain on %d distinct records (%d observations)' % (len(ulist), len(recs)))
    ck.add_traces(len(recs))
    badset = set(bad)
    details = summ.get('details', {})
    for j, r in enumerate(full):
        u = index[j]
        if u not in badset:
            continue
        want = details.get(u, {}).get('want', ['?'])
        x = r['x']
        got = r['got']
        stored = got[0] not in ('TypeError',) and not got[0].startswith('exc')
        got_is_input = (x.get('t') == 'float' and got[0] == 'f32' and
                        (got[2], got[3]) == normal(x['m'], x['e']) and (got[1] == x['neg'] or got[2] == 0))
        rep = dict(kind='domain-rejected', fam=r['fam'], impl=r['impl'], role=r['role'], code=r['code'], entry=r['entry'],
                   container=r['kindname'], xclass=x['t'], x=x, got=got, want=want, wantkind=want[0], gotkind=got[0],
                   stored=stored, got_is_input=got_is_input, unchanged=r['unchanged'], lookup=r['lookup'])
        ck.violation('%s %s %s.%s: offering %s as %s -> %s (lookup: %s, unchanged: %s); the specification expects %s' % (
            r['fam'], r['impl'], r['kindname'], r['entry'], json.dumps(x), r['role'], got, r['lookup'], r['unchanged'], want), rep)
    return ulist


def main():
    ck = common.Check('C13')
    quick = ck.tier == 'quick'
    fams = ['II', 'LL', 'UU', 'QQ', 'OO', 'IF', 'fs', 'OI', 'LQ', 'UF'] if quick else embed.FAMILIES
    recs, full = run_domain(ck, fams)
    ulist = judge_domain(ck, recs, full)
    if ulist:
        ck.sample(dict(kind='judged record', rec=ulist[len(ulist) // 2]))
        ck.sample(dict(kind='judged record', rec=ulist[-1]))
    ck.note('distinct_records', len(ulist))
    ck.assumptions += ['integers are placed on the number line by (landmark, offset) pairs; floats are dyadic m*2^e with m < 2^30',
                       'object keys of one container are mutually comparable (the probe container holds None only)']
    # the evidence is record-judging, not state exploration: report it in those terms
    ck.finish(exhaustive=True, extra_cov=dict(evaluations=len(recs), distinct_nontrivial=len(ulist),
              rule='one record per (family, implementation, container kind, entry point, role, value class); '
                   'distinct = distinct (role, type code, value class, outcome) tuples judged by TLC against Domain.tla'))


if __name__ == '__main__':
    main()
