"""C08 - concurrent transactions on a tree merge, serialize or conflict - nothing else."""
import json
from harness import common, tlc, shapes, embed, jobs, judge, graph
from harness.checks.c04 import CODE_DEV, same_val_registers

RKEYS = ('path', 'each', 'ops1', 'ops2', 'base', 'rc1', 'rc2', 'res1', 'res2', 'kind', 'reason', 'loaded', 'litems')


def tcfg(nk, nv, lf, it, dev=(), impl='c', invs=('TxnOK', 'TxnNoSpurious')):
    return """SPECIFICATION TxSpec
CONSTANTS
  Keys = {%s}
  Vals = {%s}
  MaxLeaf = %d
  MaxInt = %d
  Dev = {%s}
  PImpl = "%s"
  SameValReg = FALSE
  IsSet = FALSE
  MaxCommits = 0
  MaxOps = 0
VIEW View
%s""" % (','.join(map(str, range(1, nk + 1))), ','.join(map(str, range(1, nv + 1))), lf, it,
         ','.join('"%s"' % d for d in dev), impl, ''.join('INVARIANT %s\n' % i for i in invs))


def jconst(lf, it, impl, same, is_set):
    return {'Keys': '{1,2,3}', 'Vals': '{1,2}', 'MaxLeaf': str(lf), 'MaxInt': str(it),
            'Dev': '{' + ','.join('"%s"' % d for d in CODE_DEV) + '}', 'PImpl': '"%s"' % impl,
            'SameValReg': 'TRUE' if same else 'FALSE', 'IsSet': 'TRUE' if is_set else 'FALSE', 'MaxCommits': '0', 'MaxOps': '0'}


def renderable(x):
    if isinstance(x, bool):
        return True
    if isinstance(x, int):
        return True
    if isinstance(x, str):
        return '?' not in x and not x.startswith('exc')
    if isinstance(x, list):
        return all(renderable(y) for y in x)
    if isinstance(x, dict):
        return all(renderable(y) for y in x.values())
    return False


def main():
    ck = common.Check('C08')
    quick = ck.tier == 'quick'
    # 1. TLC: every reachable shape x every ordered pair of one-operation transactions (and 1 x 2 operations
    #    on the smaller instance): OutcomeOK; nothing fails when the first transaction changed nothing
    runs = [(5, 1, 2, 2, 'c', ('TxnOK', 'TxnNoSpurious')), (3, 2, 2, 2, 'c', ('TxnOK', 'TxnOK2')), (4, 1, 3, 2, 'py', ('TxnOK',))] if quick else \
           [(6, 1, 2, 2, 'c', ('TxnOK', 'TxnNoSpurious')), (4, 2, 2, 2, 'c', ('TxnOK', 'TxnNoSpurious')), (6, 1, 3, 2, 'c', ('TxnOK',)),
            (6, 1, 2, 3, 'py', ('TxnOK',)), (5, 1, 2, 2, 'c', ('TxnOK2',)), (7, 1, 2, 2, 'c', ('TxnOK',)), (4, 2, 2, 2, 'py', ('TxnOK2',))]
    for (nk, nv, lf, it, impl, invs) in runs:
        r = tlc.run('Txn', tcfg(nk, nv, lf, it, impl=impl, invs=invs), timeout=3400)
        ck.add_tlc(r.summary(), 'Txn keys=%d vals=%d sizes=(%d,%d) %s %s' % (nk, nv, lf, it, impl, '+'.join(invs)))
        common.tlc_verdict(ck, r, ck.notes['tlc_runs'][-1]['name'])
    #    non-vacuity: without the read dependencies (or with only the leaf's parent declared) TLC must find a lost update;
    #    resolutions and read conflicts do occur
    for dev, nk, inv in (('NoReadCurrent', 4, 'TxnOK'), ('ReadCurrentLeafParentOnly', 6, 'TxnOK'), ('', 4, 'SomeResolved'), ('', 4, 'SomeReadConflict')):
        r = tlc.run('Txn', tcfg(nk, 1, 2, 2, dev=(dev,) if dev else (), invs=(inv,)), timeout=3000)
        ck.add_tlc(r.summary(), 'Txn %s %s (must be refuted)' % (dev, inv))
        if r.violation != inv:
            ck.violation('%s %s is not refuted by TLC (vacuous instance)' % (dev, inv), dict(kind='vacuity', dev=dev, inv=inv, out=r.out[-1500:]))
    # 2. conformance: scenarios on the real containers, two stand-in connections
    dumps = {}
    for (nk, lf, it) in ([(5, 2, 2), (5, 3, 2)] if quick else [(6, 2, 2), (6, 3, 2), (6, 2, 3), (7, 2, 2)]):
        fn, payloads, summ = shapes.dump_file(nk, 1, lf, it, spec='SpecCore')
        ck.add_tlc(summ, 'base shapes keys=%d sizes=(%d,%d)' % (nk, lf, it))
        dumps[(nk, lf, it)] = (fn, len(graph.Graph(payloads).states()))
    fams = (['II', 'OO', 'LF', 'fs'] if quick else embed.FAMILIES)
    plan = []
    for fam in fams:
        for impl in ('c', 'py'):
            for is_set in (True, False):
                for (nk, lf, it), (fn, nstates) in dumps.items():
                    budget = (70 if impl == 'c' else 30) if quick else (nstates if impl == 'c' else nstates // 3)
                    idx = list(range(nstates))
                    ck.rng.shuffle(idx)
                    plan.append(dict(fam=fam, impl=impl, is_set=is_set, leaf=lf, internal=it, nkeys=nk, dump=fn,
                                     indices=sorted(idx[:budget]), per_state=3 if quick else 6, targeted=True,
                                     seed=ck.seed * 100000 + len(plan), pure=(impl == 'py')))
    # the same scenarios on a user subclass of the tree class (only the data manager sees the difference: class by reference)
    extra = []
    for j in plan:
        if j['impl'] == 'c' and j['fam'] in ('II', 'OO') and len(extra) < (6 if quick else 40):
            extra.append(dict(j, subclass=True, seed=j['seed'] + 77))
    plan += extra
    results = jobs.run_jobs('harness.workers.txn_worker', plan, pure=True)
    groups = {}
    outcomes = {}
    for job, res, err in results:
        ident = dict(fam=job['fam'], impl=job['impl'], is_set=job['is_set'], sizes=[job['leaf'], job['internal']])
        if err:
            ck.violation('txn worker died %s: %s' % (ident, err), dict(ident, kind='crash', err=err))
            continue
        key = (job['leaf'], job['internal'], job['impl'], same_val_registers(job['fam'], job['impl'], job['is_set']), job['is_set'])
        ck.bump('damaged_bases_skipped', res.get('damaged', 0))
        for r in res['recs']:
            outcomes[r['kind']] = outcomes.get(r['kind'], 0) + 1
            rr = {k: r[k] for k in RKEYS}
            if not renderable(rr):
                ck.violation('%s: scenario outcome outside the model vocabulary: %s' % (ident, {k: r[k] for k in ('ops1', 'ops2', 'kind', 'reason', 'litems')}),
                             dict(ident, kind='malformed', rec=r))
                continue
            if r['kind'] == 'ok' and r.get('lcheck') != 'ok':
                rr['_lcheck'] = r.get('lcheck')
            groups.setdefault(key, {}).setdefault(json.dumps(rr, sort_keys=True), (rr, ident))
    ck.note('real_outcomes', outcomes)
    for key, d in sorted(groups.items()):
        items = list(d.values())
        recs = [{k: v for k, v in rr.items() if not k.startswith('_')} for rr, _ in items]
        bad, summ = judge.judge('JudgeTxn', recs, constants=jconst(*key), chunk=4000)
        ck.add_tlc(dict(generated=summ['generated'], distinct=summ['distinct'], wall_s=round(summ['wall_s'], 1)),
                   'JudgeTxn sizes=(%s,%s) impl=%s: %d distinct scenarios' % (key[0], key[1], key[2], len(recs)))
        ck.add_traces(len(recs))
        det = summ.get('details', {})
        badset = set(bad)
        for b, (rr, ident) in enumerate(items):
            if b in badset:
                why = det.get(b, {}).get('why')
                if why == 'property':
                    # real = specification with the code's deviations, and that outcome breaks the property:
                    # only the inline-leaf deviations can do that (TLC proves TxnOK without them)
                    ck.known_finding('D18')
                    if 'D18' not in [f['id'] for f in ck.known]:
                        ck.violation('%s: outcome breaks the property (inline-leaf deviations), finding not listed' % (ident,),
                                     dict(ident, kind='d18-unlisted', rec=rr))
                    continue
                ck.violation('%s %s %s sizes=%s: T1=%s T2=%s on base %s -> %s (reason %s): %s differs from the specification' % (
                    ident['fam'], ident['impl'], 'set' if ident['is_set'] else 'map', ident['sizes'], rr['ops1'], rr['ops2'],
                    rr['path'], rr['kind'], rr['reason'], why), dict(ident, kind='scenario-rejected', why=why, rec=rr))
            elif rr.get('_lcheck'):
                ck.violation('%s: loaded tree fails _check(): %s' % (ident, rr['_lcheck']), dict(ident, kind='loaded-check', rec=rr))
        if recs:
            ck.sample(dict(kind='judged scenario', owner=items[0][1], rec={k: recs[0][k] for k in ('path', 'ops1', 'ops2', 'rc1', 'rc2', 'kind', 'reason')}))
    for need in ('ok', 'conflict', 'readconflict'):
        if not outcomes.get(need) and not ck.violations:
            common.machinery_failure('no real scenario ended with %s' % need)
    ck.assumptions += ['the data manager is a stand-in for ZODB (harness/minijar.py): serial check per written object, '
                       '_p_resolveConflict on states with reference stubs, readCurrent verification',
                       'base trees are committed completely (every node stored) before the two transactions start']
    ck.finish(exhaustive=not quick)


if __name__ == '__main__':
    main()
