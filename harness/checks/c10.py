"""C10 - union / intersection / difference compute the mathematical result.
(also home of the shared driver used by C12)"""
import json
from harness import common, tlc, embed, jobs, judge


def wellformed(r):
    def ok(x):
        if isinstance(x, list):
            return all(ok(y) for y in x)
        if isinstance(x, str):
            return x in ('same', 'Set', 'TreeSet', 'Bucket', 'BTree', 'bool')
        return isinstance(x, int) and not isinstance(x, bool)
    if r['fn'] in ('ror', 'rand', 'rsub', 'rxor') and r['got'] == ['exc', 'TypeError']:
        return True         # a plain iterable on the left of an operator may be rejected
    return ok(r['got'])


def run_setops(ck, plan, pid):
    results = jobs.run_jobs('harness.workers.setop_worker', plan, pure=True)
    allrecs, owners = {}, {}
    for job, res, err in results:
        ident = dict(fam=job['fam'], impl=job['impl'])
        if err:
            ck.violation('set-operation worker died %s: %s' % (ident, err), dict(ident, kind='crash', err=err))
            continue
        ck.bump('real_calls', res['counts']['calls'])
        for r in res['records']:
            if not wellformed(r):
                ck.violation('%s %s: %s(%s %s, %s %s%s) -> %s' % (
                    ident['fam'], ident['impl'], r['fn'], r['a']['kind'], [x[0] for x in r['a']['items']], r['b']['kind'],
                    [x[0] for x in r['b']['items']], (', w=%s,%s' % (r['w1'], r['w2'])) if 'w1' in r else '', r['got']),
                    dict(ident, kind='setop-malformed', fn=r['fn'], akind=r['a']['kind'], bkind=r['b']['kind'], rec=r))
                continue
            k = json.dumps(r, sort_keys=True)
            if k not in allrecs:
                allrecs[k] = r
                owners[k] = ident
    keys = list(allrecs)
    recs = [allrecs[k] for k in keys]
    bad, summ = judge.judge('JudgeSetOp', recs)
    ck.add_tlc(dict(generated=summ['generated'], distinct=summ['distinct'], wall_s=round(summ['wall_s'], 1)),
               'JudgeSetOp on %d distinct recorded results' % len(recs))
    ck.add_traces(len(recs))
    if recs:
        ck.sample(dict(kind='recorded result', rec=recs[len(recs) // 2]))
    for b in bad:
        r = recs[b]
        ident = owners[keys[b]]
        ck.violation('%s %s: %s(%s %s, %s %s%s) -> %s (operands unchanged: %s, %s) is not the documented result' % (
            ident['fam'], ident['impl'], r['fn'], r['a']['kind'], r['a']['items'], r['b']['kind'], r['b']['items'],
            (', w=%s,%s' % (r['w1'], r['w2'])) if 'w1' in r else '', r['got'], r['ua'], r['ub']),
            dict(ident, kind='setop-rejected', fn=r['fn'], akind=r['a']['kind'], bkind=r['b']['kind'], rec=r))


def main():
    ck = common.Check('C10')
    quick = ck.tier == 'quick'
    cfg = "SPECIFICATION Spec\nCONSTANTS\n Keys = {%s}\n Vals = {1,2}\n Weights = {0}\n ListLen = %d\nINVARIANT RefinesOK\n" % (
        '1,2,3' if quick else '1,2,3,4', 3)
    r = tlc.run('SetAlgebraMC', cfg, timeout=3400)
    ck.add_tlc(r.summary(), 'SetAlgebraMC: walk refines the algebra on all operand pairs')
    common.tlc_verdict(ck, r, ck.notes['tlc_runs'][-1]['name'])
    fams = (['OO', 'II', 'LQ', 'UF', 'fs', 'QO'] if quick else embed.FAMILIES)
    plan = []
    for fam in fams:
        for impl in ('c', 'py'):
            plan.append(dict(fam=fam, impl=impl, emb='ext' if fam[0] == 'O' or len(plan) % 3 == 0 else 'mid', nkeys=3 if quick else 4,
                             seed=ck.seed * 100 + len(plan), maxpairs=(2500 if impl == 'c' else 900) if quick else 40000))
    # operands that are instances of user subclasses of the container types (containers of that kind like any other)
    for fam in (['OO', 'II'] if quick else ['OO', 'II', 'LF', 'fs', 'QQ', 'IO']):
        for impl in ('c', 'py'):
            plan.append(dict(fam=fam, impl=impl, emb='mid', nkeys=3, subclassed=True,
                             seed=ck.seed * 100 + 50 + len(plan), maxpairs=(1200 if impl == 'c' else 500) if quick else 20000))
    # ... and of operands that live in a data manager, stored and evicted: every leaf a ghost when the operation starts
    for fam in (['OO', 'II'] if quick else ['OO', 'II', 'LF', 'fs', 'QQ', 'IO']):
        for impl in ('c', 'py'):
            # (5 keys: trees of three and more leaves - the range search loads the end leaves, the inner ones stay ghosts)
            plan.append(dict(fam=fam, impl=impl, emb='mid', nkeys=5, ghost=True, pure=(impl == 'py'),
                             seed=ck.seed * 100 + 80 + len(plan), maxpairs=(400 if impl == 'c' else 150) if quick else 8000))
    run_setops(ck, plan, 'C10')
    ck.assumptions += ['operands hold keys of the family', 'first operand of difference and of the operators is a BTrees container']
    ck.finish(exhaustive=not quick)


if __name__ == '__main__':
    main()
