"""C12 - weighted union / intersection follow the documented formula."""
from harness import common, tlc, embed
from harness.checks.c10 import run_setops


def main():
    ck = common.Check('C12')
    quick = ck.tier == 'quick'
    cfg = ("SPECIFICATION SpecW\nCONSTANTS\n Keys = {%s}\n Vals = {1,2%s}\n Weights <- %s\n ListLen = 0\nINVARIANT WeightedOK\n"
           % (('1,2', '', 'WeightsSmall') if quick else ('1,2,3', ',3', 'WeightsSmall')))
    r = tlc.run('SetAlgebraMC', cfg, timeout=3400)
    ck.add_tlc(r.summary(), 'SetAlgebraMC: weighted walk (swap, MERGE_DEFAULT) refines the documented formula')
    common.tlc_verdict(ck, r, ck.notes['tlc_runs'][-1]['name'])
    fams = (['II', 'LL', 'IF', 'UF', 'OQ', 'OI', 'LF', 'QQ'] if quick else embed.NUMERIC_VALUE_FAMILIES)
    plan = []
    for fam in fams:
        for impl in ('c', 'py'):
            plan.append(dict(fam=fam, impl=impl, emb='ext' if fam[0] == 'O' or len(plan) % 2 else 'mid',
                             nkeys=3, seed=ck.seed * 100 + len(plan), weighted=True,
                             maxpairs=(3000 if impl == 'c' else 1200) if quick else 60000))
    # operands that live in a data manager, stored and evicted: every node a ghost when the weighted operation starts
    for fam in (['II', 'LF'] if quick else ['II', 'LF', 'OQ', 'UF', 'QQ', 'OI']):
        for impl in ('c', 'py'):
            plan.append(dict(fam=fam, impl=impl, emb='mid', nkeys=4, seed=ck.seed * 100 + 70 + len(plan), weighted=True, ghost=True,
                             pure=(impl == 'py'), maxpairs=(500 if impl == 'c' else 200) if quick else 8000))
    run_setops(ck, plan, 'C12')
    ck.assumptions += ['unsigned value families get non-negative weights (negative ones are documented as meaningless)',
                       'float families: values and weights are multiples of 0.5 (exact in single precision); '
                       'integer families: weights c1*B + c0 with B = 2^20 (32-bit) / 2^40 (64-bit)']
    ck.finish(exhaustive=not quick)


if __name__ == '__main__':
    main()
