"""C11 - multiunion is the exact sorted union for every integer-key family."""
from harness import common, tlc, embed, jobs, judge


def main():
    ck = common.Check('C11')
    quick = ck.tier == 'quick'
    for (w, base, ml) in ([(2, 4, 4)] if quick else [(2, 4, 5), (3, 4, 3), (2, 8, 3)]):
        cfg = "SPECIFICATION Spec\nCONSTANTS\n W = %d\n Base = %d\n MaxLen = %d\n Dev = {}\nINVARIANT SortOK\nINVARIANT BufferOK\n" % (w, base, ml)
        r = tlc.run('Radix', cfg, timeout=3400)
        ck.add_tlc(r.summary(), 'Radix W=%d base=%d len<=%d' % (w, base, ml))
        common.tlc_verdict(ck, r, ck.notes['tlc_runs'][-1]['name'])
    for dev in ('SignedMSBForUnsigned', 'SignAwareFromDigit1', 'UniqEarlyReturnNoCopy'):
        cfg = 'SPECIFICATION Spec\nCONSTANTS\n W = 3\n Base = 4\n MaxLen = 2\n Dev = {"%s"}\nINVARIANT SortOK\n' % dev
        r = tlc.run('Radix', cfg, timeout=600)
        if r.violation != 'SortOK':
            common.machinery_failure('deviation %s not refuted (vacuous SortOK?)' % dev)
        ck.bump('deviations_refuted')
    fams = embed.INT_KEY_FAMILIES if not quick else ['II', 'IO', 'LL', 'LF', 'UU', 'UO', 'QQ', 'QL', 'IF', 'LQ', 'UI', 'QF']
    plan = []
    for fam in fams:
        for impl in ('c', 'py'):
            if quick:
                totals, reps = ([0, 1, 7, 799, 800, 801, 1300], 2) if impl == 'c' else ([0, 1, 7, 801], 2)
            else:
                totals, reps = ([0, 1, 2, 7, 100, 799, 800, 801, 802, 1600, 5000], 8) if impl == 'c' else ([0, 1, 7, 799, 801, 1600], 3)
            plan.append(dict(fam=fam, impl=impl, seed=ck.seed * 100 + len(plan), totals=totals, reps=reps))
    # the same with the container operands stored in the data manager and evicted (ghosts when multiunion starts)
    for fam in (['II', 'LL', 'QQ', 'UF'] if quick else fams):
        for impl in ('c', 'py'):
            plan.append(dict(fam=fam, impl=impl, seed=ck.seed * 100 + 70 + len(plan), totals=[1, 7, 60, 801], reps=2, ghost=True, nkeys=1200,
                             pure=(impl == 'py')))
    results = jobs.run_jobs('harness.workers.multi_worker', plan, pure=True)
    recs, owners = [], []
    for job, res, err in results:
        ident = dict(fam=job['fam'], impl=job['impl'])
        if err:
            ck.violation('multiunion worker died %s: %s' % (ident, err), dict(ident, kind='crash', err=err))
            continue
        for r in res['records']:
            if not all(isinstance(x, int) for x in r['got'] + r['range']) or r['kind'].startswith('exc'):
                ck.violation('%s %s: multiunion of %d elements in %d operands -> %s %s' % (
                    ident['fam'], ident['impl'], r['total'], len(r['ops']), r['kind'], str(r['got'])[:100]),
                    dict(ident, kind='multiunion-malformed', total=r['total'], rec=dict(r, ops=r['ops'][:3])))
                continue
            recs.append(r)
            owners.append(ident)
    bad, summ = judge.judge('JudgeMulti', recs, chunk=300)
    ck.add_tlc(dict(generated=summ['generated'], distinct=summ['distinct'], wall_s=round(summ['wall_s'], 1)),
               'JudgeMulti on %d recorded results' % len(recs))
    ck.add_traces(len(recs))
    ck.bump('elements_sorted', sum(r['total'] for r in recs))
    if recs:
        s = recs[min(3, len(recs) - 1)]
        ck.sample(dict(kind='multiunion record', total=s['total'], operands=len(s['ops']), result_len=s['len'],
                       first_ranks=s['got'][:8]))
    for b in bad:
        r, ident = recs[b], owners[b]
        srt = all(r['got'][j] < r['got'][j + 1] for j in range(len(r['got']) - 1))
        ck.violation('%s %s: multiunion of %d elements (%d operands): result of %d keys, strictly increasing=%s, is not the sorted duplicate-free union / does not behave as a Set' % (
            ident['fam'], ident['impl'], r['total'], len(r['ops']), len(r['got']), srt),
            dict(ident, kind='multiunion-rejected', total=r['total'], sorted=srt, got_head=r['got'][:40]))
    ck.assumptions += ['ranks are assigned by Python integer order over the run\'s key set (trusted)',
                       'the operand list is a sequence (multiunion\'s contract)']
    ck.finish(exhaustive=False)


if __name__ == '__main__':
    main()
