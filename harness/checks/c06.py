"""C06 - serialized state round-trips, identically in C and Python."""
import json
from harness import common, tlc, shapes, embed, jobs, replayplan as RP

DEV = ('EmbeddedNonRootLeaf',)


def main():
    ck = common.Check('C06')
    quick = ck.tier == 'quick'
    # 1. TLC: with the state forms as designed (inline form only for a one-leaf tree) every reachable
    #    container round-trips into the same model state
    for (nk, nv, lf, it) in ([(6, 1, 2, 2), (5, 2, 3, 2)] if quick else [(7, 1, 2, 2), (6, 2, 2, 2), (7, 1, 3, 2), (6, 1, 2, 3)]):
        r = tlc.run('StateImpl', shapes.cfg(nk, nv, lf, it, spec='SpecCore', invariants=('RoundTripOK', 'FormsOK')), timeout=3000)
        ck.add_tlc(r.summary(), 'StateImpl keys=%d vals=%d sizes=(%d,%d)' % (nk, nv, lf, it))
        common.tlc_verdict(ck, r, ck.notes['tlc_runs'][-1]['name'])
    # the code's actual rule (any single-leaf node embeds) is a named deviation; TLC must refute it (finding D25)
    r = tlc.run('StateImpl', shapes.cfg(6, 1, 2, 2, spec='SpecCore', invariants=('RoundTripOK',), dev=DEV), timeout=600)
    if r.violation != 'RoundTripOK':
        common.machinery_failure('deviation EmbeddedNonRootLeaf not refuted (vacuous RoundTripOK?)')
    ck.bump('deviations_refuted')
    # 2. conformance on every replayed state (model run with the deviation on = what the code does)
    plan = []
    fams = embed.QUICK_FAMILIES if quick else embed.FAMILIES
    for (nk, nv, lf, it, sets) in ([(5, 1, 2, 2, [True, False]), (4, 2, 3, 2, [False])] if quick else
                                   [(6, 1, 2, 2, [True, False]), (5, 2, 2, 2, [False]), (5, 2, 3, 2, [False]), (6, 1, 2, 3, [True])]):
        fn, payloads, summ = shapes.dump_file(nk, nv, lf, it, spec='SpecCore', module='StateImpl', dev=DEV, dumpop='DumpS')
        ck.add_tlc(summ, 'dump (with state forms) keys=%d sizes=(%d,%d)' % (nk, lf, it))
        for fam in fams:
            idx = RP.stratified(ck.rng, payloads, 150 if quick else 4000)
            for is_set in sets:
                plan.append(dict(dump=fn, fam=fam, is_set=is_set, emb='ext' if len(plan) % 2 else 'mid', leaf=lf,
                                 internal=it, nkeys=nk, indices=idx, keep_pickles=40))
                if fam != 'OO':
                    # the same histories with keys and values offered as instances of subclasses of int / float / bytes
                    # (bool, user classes): stored and pickled as plain numbers / strings by both implementations
                    plan.append(dict(dump=fn, fam=fam, is_set=is_set, emb='mid' if len(plan) % 2 else 'ext', leaf=lf,
                                     internal=it, nkeys=nk, indices=idx[:60] if quick else idx[:1500], keep_pickles=0, argtype='sub'))
    # trees with loose separators (BTreeImpl!Loosen, loosened at the end of the history): what an older database holds must
    # round-trip and pickle identically in both implementations too
    for (nk, nv, lf, it) in ([(5, 1, 2, 2)] if quick else [(6, 1, 2, 2), (5, 1, 2, 3)]):
        r = tlc.run('StateImpl', shapes.cfg(nk, nv, lf, it, spec='SpecLooseEnd', invariants=('RoundTripOK', 'FormsOK')), timeout=3000)
        ck.add_tlc(r.summary(), 'StateImpl with loose separators keys=%d vals=%d sizes=(%d,%d)' % (nk, nv, lf, it))
        common.tlc_verdict(ck, r, ck.notes['tlc_runs'][-1]['name'])
        fn, payloads, summ = shapes.dump_file(nk, nv, lf, it, spec='SpecLooseEnd', module='StateImpl', dev=DEV, dumpop='DumpS')
        ck.add_tlc(summ, 'dump (state forms, loose separators) keys=%d sizes=(%d,%d)' % (nk, lf, it))
        lidx = [i for i, tr in enumerate(payloads) if tr['act']['op'] == 'loosen']
        ck.rng.shuffle(lidx)
        ck.bump('loose_transitions', len(lidx))
        for fam in fams:
            for is_set in (True, False):
                plan.append(dict(dump=fn, fam=fam, is_set=is_set, emb='mid', leaf=lf, internal=it, nkeys=nk,
                                 indices=sorted(lidx[:(60 if quick else 2000)]), keep_pickles=10, nofollow_py=True))
    results = jobs.run_jobs('harness.workers.state_worker', plan)
    stage2 = []
    for job, res, err in results:
        ident = dict(fam=job['fam'], is_set=job['is_set'], sizes=[job['leaf'], job['internal']])
        if err:
            ck.violation('state worker died %s: %s' % (ident, err), dict(ident, kind='crash', err=err))
            continue
        ck.add_traces(res['counts']['replayed'])
        ck.bump('roundtrips', res['counts']['roundtrips'])
        ck.bump('pickles_compared', res['counts']['pickles_compared'])
        for fid, n in res['known'].items():
            ck.known_finding(fid, n)
        for mm in res['mismatches']:
            ck.violation('%s %s set=%s: %s %s after %s' % (mm.get('fam'), mm.get('impl'), mm.get('is_set'), mm['kind'],
                                                            mm.get('trip', ''), json.dumps(mm.get('act'))), mm)
        if res['pickles']:
            stage2.append(dict(fam=job['fam'], is_set=job['is_set'], emb=job['emb'], pickles=res['pickles'], pure=True))
    # 3. pickles written by C are loaded (and re-dumped byte-identically) by a pure-Python process
    res2 = jobs.run_jobs('harness.workers.pureload_worker', stage2, pure=True)
    for job, res, err in res2:
        ident = dict(fam=job['fam'], is_set=job['is_set'])
        if err:
            ck.violation('pure-Python loader died %s: %s' % (ident, err), dict(ident, kind='crash', err=err))
            continue
        ck.bump('c_pickles_loaded_by_pure_python', res['loaded'])
        for mm in res['mismatches']:
            ck.violation('%s set=%s: %s (C pickle in a pure-Python process)' % (job['fam'], job['is_set'], mm['kind']),
                         dict(ident, **mm))
    ck.sample(dict(kind='state worker job', job={k: v for k, v in plan[0].items() if k not in ('indices', 'dump')}))
    ck.assumptions += ['no database: no node has an oid', 'byte identity of equal states under equal class names is '
                       "CPython's pickler's business; it is checked differentially, not modelled"]
    ck.finish(exhaustive=not quick)


if __name__ == '__main__':
    main()
