"""C07 - leaf conflict resolution is an exact three-way merge or a refusal."""
import json
from harness import common, tlc, embed, jobs, judge


def wellformed(r):
    g = r['got']
    if g[0] == 'ok':
        return all(isinstance(a, int) and isinstance(b, int) for a, b in g[1]) and isinstance(g[2], int)
    if g[0] == 'err':
        return len(g) == 5 and all(isinstance(x, int) for x in g[1:])
    return False


def main():
    ck = common.Check('C07')
    quick = ck.tier == 'quick'
    # 1. TLC: the walk equals the declarative promise on every triple of the universe
    for keys, vals, links in ((('{1,2,3}', '{7,8}', '{0,1}'), ('{1,2,3,4}', '{1}', '{0,1}')) if quick else
                              (('{1,2,3}', '{7,8}', '{0,1,2}'), ('{1,2,3,4}', '{7,8}', '{0}'), ('{1,2,3,4,5}', '{1}', '{0,1}'),
                               ('{1,2,3}', '{7,8,9}', '{0}'))):
        cfg = "SPECIFICATION Spec\nCONSTANTS\n Keys = %s\n Vals = %s\n Links = %s\nINVARIANT WalkOK\n" % (keys, vals, links)
        r = tlc.run('MergeMC', cfg, timeout=3400)
        ck.add_tlc(r.summary(), 'MergeMC keys=%s vals=%s links=%s' % (keys, vals, links))
        common.tlc_verdict(ck, r, ck.notes['tlc_runs'][-1]['name'])
    # 2. conformance: the real classes on every triple, judged by TLC against the walk
    fams = (['OO', 'II', 'LQ', 'UF', 'fs', 'OI'] if quick else embed.FAMILIES)
    plan = []
    all_links = [(0, 0, 0), (1, 1, 1), (1, 0, 1), (1, 1, 2), (0, 1, 0), (2, 1, 1)]
    for fam in fams:
        for impl in ('c', 'py'):
            for is_set in (False, True):
                if quick:
                    # every family sees a different slice; together they cover the universe several times
                    m = 3
                    sel = [m, (len(plan)) % m]
                    links = [(0, 0, 0)] + [all_links[1 + len(plan) % 5]]
                else:
                    sel, links = None, all_links
                plan.append(dict(fam=fam, impl=impl, is_set=is_set, emb='ext' if len(plan) % 2 else 'mid',
                                 nkeys=4 if is_set else 3, nvals=2, links=links, select=sel))
    # object values that are only partially ordered (frozensets: unequal, neither smaller, nothing raises): "did this
    # transaction change the value" is a question of equality, not of order
    for fam in (['OO', 'IO'] if quick else ['OO', 'IO', 'LO', 'UO', 'QO']):
        for impl in ('c', 'py'):
            plan.append(dict(fam=fam, impl=impl, is_set=False, emb='po', nkeys=3, nvals=2, links=[(0, 0, 0)],
                             select=[3, len(plan) % 3] if quick else None))
    results = jobs.run_jobs('harness.workers.merge_worker', plan)
    allrecs, owners = {}, {}
    mal = {}
    for job, res, err in results:
        ident = dict(fam=job['fam'], impl=job['impl'], is_set=job['is_set'])
        if err:
            ck.violation('merge worker died %s: %s' % (ident, err), dict(ident, kind='crash', err=err))
            continue
        ck.bump('real_calls', res['count'])
        for r in res['records']:
            who = r.pop('who')
            k = json.dumps(r, sort_keys=True)
            if not wellformed(r):
                ck.violation('%s %s %s: _p_resolveConflict(%s, %s, %s) -> %s' % (
                    ident['fam'], ident['impl'], who, r['o'], r['c'], r['n'], r['got']),
                    dict(ident, kind='merge-malformed', who=who, rec=r))
                continue
            if k not in allrecs:
                allrecs[k] = r
                owners[k] = dict(ident, who=who)
        for label, perm, got in res['malformed']:
            mal.setdefault((label, perm), {}).setdefault(got, []).append(ident)
    for (label, perm), outcomes in mal.items():
        if set(outcomes) != {'TypeError'}:
            ck.violation('malformed state (%s, position %d): outcomes %s' % (
                label, perm, {k: len(v) for k, v in outcomes.items()}),
                dict(kind='malformed-shape', label=label, perm=perm,
                     outcomes={k: v[:3] for k, v in outcomes.items()}))
    keys = list(allrecs)
    recs = [allrecs[k] for k in keys]
    bad, summ = judge.judge('JudgeMerge', recs)
    ck.add_tlc(dict(generated=summ['generated'], distinct=summ['distinct'], wall_s=round(summ['wall_s'], 1)),
               'JudgeMerge on %d distinct recorded outcomes' % len(recs))
    ck.add_traces(len(recs))
    if recs:
        ck.sample(dict(kind='recorded outcome', rec=recs[len(recs) // 3]))
        ck.sample(dict(kind='recorded outcome', rec=recs[-1]))
    for b in bad:
        r = recs[b]
        ident = owners[keys[b]]
        ck.violation('%s %s %s: _p_resolveConflict(old=%s, committed=%s, new=%s, links=%s) -> %s is not what the specification allows' % (
            ident['fam'], ident['impl'], ident['who'], r['o'], r['c'], r['n'], [r['xo'], r['xc'], r['xn']], r['got']),
            dict(ident, kind='merge-rejected', rec=r))
    ck.assumptions += ['values of one leaf are comparable for equality', 'key/value ranks embedded per family']
    ck.finish(exhaustive=not quick)


if __name__ == '__main__':
    main()
