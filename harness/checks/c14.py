"""C14 - an exception raised by a key comparison leaves the container intact."""
import json
from harness import common, tlc, shapes, jobs


def main():
    ck = common.Check('C14')
    quick = ck.tier == 'quick'
    # 1. TLC (Cmp.tla): the comparison events of get / set / delete on every reachable shape; every comparison
    #    precedes the first mutation (FaultAtomic); ReadPinned; the same run prints the expected events and the
    #    completed states for the replay.  The code before the fix (comparison after the child changed) is refuted.
    evdumps = []
    for (nk, lf, it) in ([(5, 2, 2), (4, 3, 2), (4, 2, 3)] if quick else [(6, 2, 2), (6, 3, 2), (6, 2, 3), (5, 3, 3)]):
        c = shapes.cfg(nk, 1, lf, it, spec='SpecCore', invariants=('ReadPinned', 'FaultAtomic', 'DumpEv'))
        payloads, summ = tlc.cached_payloads('Cmp', c, 'CE', workers=1, timeout=3400)
        ck.add_tlc(summ, 'Cmp FaultAtomic + expected comparison events keys=%d sizes=(%d,%d)' % (nk, lf, it))
        key = tlc.spec_hash('Cmp', c, 'CE', None, None, None)
        fn, p2, s2 = shapes.dump_file(nk, 1, lf, it, spec='SpecCore')
        evdumps.append((nk, lf, it, '%s/dumps/Cmp-%s.json' % (tlc.CACHE, key), fn, len(payloads)))
    r = tlc.run('Cmp', shapes.cfg(6, 1, 2, 2, spec='SpecCore', invariants=('FaultAtomic',), dev=('SepCmpAfterChild',)), timeout=3000)
    ck.add_tlc(r.summary(), 'Cmp with the separator comparison after the child\'s change (must be refuted)')
    if r.violation != 'FaultAtomic':
        ck.violation('the pre-fix delete is not refuted by TLC', dict(kind='vacuity', out=r.out[-1500:]))
    # 2. spec -> code: every comparison index of every call on every shape fails once
    plan = []
    for (nk, lf, it, evfn, fn, n) in evdumps:
        idx = list(range(n))
        ck.rng.shuffle(idx)
        for impl in ('c', 'py'):
            sel = idx[:(200 if impl == 'c' else 70)] if quick else idx
            parts = 4 if quick else 8
            for is_set in (True, False):
                for p in range(parts):
                    # the exception raised inside the comparison: a plain Exception subclass, or (every other job) a
                    # TypeError - what comparing unrelated types raises, and what lookups answer "not there" to when
                    # it comes from a key *conversion*
                    plan.append(dict(impl=impl, is_set=is_set, leaf=lf, internal=it, dump=fn, events=evfn,
                                     indices=sorted(sel[p::parts]), pure=(impl == 'py'), partb_cap=25 if quick else 60,
                                     exc='TypeError' if p % 2 else 'Exception'))
    results = jobs.run_jobs('harness.workers.fault_worker', plan, pure=True)
    for job, res, err in results:
        ident = dict(impl=job['impl'], is_set=job['is_set'], sizes=[job['leaf'], job['internal']])
        if err:
            ck.violation('fault worker died %s: %s' % (ident, err), dict(ident, kind='crash', err=err))
            continue
        for k, v in res['counts'].items():
            ck.bump(k, v)
        ck.add_traces(res['counts']['faults'] + res['counts']['partb_faults'] + res['counts']['calls'])
        for mm in res['mismatches']:
            ck.violation('OO %s %s sizes=%s %s(k=%s) failing comparison %s of %s (raising %s): %s' % (
                mm['impl'], 'set' if mm['is_set'] else 'map', mm['sizes'], mm['op'], mm.get('k'), mm.get('fail_at'),
                mm.get('comparisons'), mm.get('exc'), mm['kind']), mm)
    # 3. the same faults on a *stored* tree (C, under the data manager): the exception reaches the caller and no node stays
    #    pinned - after a failed comparison anywhere in get / set / delete / pop / setdefault / insert / popitem, a range
    #    search, minKey / maxKey, every node can still be evicted (a node left in use would stay in memory for good)
    plan2 = []
    for (nk, lf, it, evfn, fn, n) in evdumps:
        idx = list(range(n))
        ck.rng.shuffle(idx)
        sel = idx[:80] if quick else idx
        parts = 4 if quick else 8
        for is_set in (True, False):
            for p in range(parts):
                plan2.append(dict(impl='c', is_set=is_set, leaf=lf, internal=it, dump=fn, events=evfn, revents=None,
                                  indices=sorted(sel[p::parts]), query_every=2 if quick else 1, sweeps=False, faults=True))
    for job, res, err in jobs.run_jobs('harness.workers.pins_worker', plan2):
        ident = dict(impl=job['impl'], is_set=job['is_set'], sizes=[job['leaf'], job['internal']])
        if err:
            ck.violation('pins worker died %s: %s' % (ident, err), dict(ident, kind='crash', err=err))
            continue
        ck.bump('stored_calls', res['counts']['calls'])
        ck.bump('stored_faults', res['counts'].get('faults', 0))
        ck.add_traces(res['counts'].get('faults', 0))
        for mm in res['mismatches']:
            ck.violation('OO c %s sizes=%s stored tree, %s(k=%s) failing comparison %s: %s' % (
                'set' if mm['is_set'] else 'map', mm['sizes'], mm['op'], mm.get('k'), mm.get('fail_at'), mm['kind']), mm)
    if plan:
        ck.sample(dict(kind='fault job', job={k: v for k, v in plan[0].items() if k not in ('indices',)}, shapes=len(plan[0]['indices'])))
    ck.assumptions += ['object keys of one instrumented class; the fault is an exception raised inside __lt__/__eq__ (or the '
                       'operators the Python implementation uses) at the n-th rich comparison of the call',
                       'reference counts read with sys.getrefcount on one key object per rank']
    ck.finish(exhaustive=not quick)


if __name__ == '__main__':
    main()
