"""C19 - Length is a conflict-free counter."""
import json, os, re, shutil, subprocess, time
from harness import common, tlc, jobs, judge


def tlaps():
    """discharge the theorems of LengthProofs.tla; returns (obligations, proved, text)"""
    d = os.path.join(tlc.CACHE, 'tlaps-run')
    shutil.rmtree(d, ignore_errors=True)
    os.makedirs(d)
    shutil.copy('/verif/specs/LengthProofs.tla', d)
    p = subprocess.run(['tlapm', '--cleanfp', 'LengthProofs.tla'], cwd=d, capture_output=True, text=True, timeout=600)
    out = p.stdout + p.stderr
    shutil.rmtree(d, ignore_errors=True)
    m = re.search(r'All (\d+) obligations? proved', out)
    if m:
        return int(m.group(1)), int(m.group(1)), out
    m = re.search(r'(\d+)/(\d+) obligations? failed', out)
    if m:
        return int(m.group(2)), int(m.group(2)) - int(m.group(1)), out
    return 0, 0, out


def main():
    ck = common.Check('C19', level='proof')
    quick = ck.tier == 'quick'
    ob, proved, out = tlaps()
    if ob == 0:
        common.machinery_failure('tlapm produced no verdict:\n' + out[-2000:])
    if proved != ob:
        ck.violation('TLAPS: %d of %d obligations about the resolution formula not proved' % (ob - proved, ob),
                     dict(kind='tlaps', out=out[-2000:]))
    # TLC: the cell with two optimistic transactions, all interleavings
    rng = 'Range2' if quick else 'Range3'
    cfg = ("SPECIFICATION Spec\nCONSTANTS\n Range <- %s\nCONSTRAINT Bound\nINVARIANT NoLostUpdate\nINVARIANT FormulaOK\n"
           "INVARIANT Commutes\nINVARIANT AddsDeltas\n" % rng)
    r = tlc.run('Length', cfg, timeout=3000)
    ck.add_tlc(r.summary(), 'Length cell, two transactions, Range=%s' % rng)
    common.tlc_verdict(ck, r, ck.notes['tlc_runs'][-1]['name'])
    # conformance: the real class
    plan = [dict(seed=ck.seed * 100 + j, nresolve=60 if quick else 600, ntraces=40 if quick else 400, length=30)
            for j in range(4 if quick else 16)]
    results = jobs.run_jobs('harness.workers.length_worker', plan)
    recs = []
    for job, res, err in results:
        if err:
            ck.violation('length worker died: %s' % err, dict(kind='crash', err=err))
            continue
        for rec in res['records']:
            if rec['kind'] == 'resolve' and not all(isinstance(x, int) for x in rec['got']):
                ck.violation('Length._p_resolveConflict returned %s for old=%s a=%s b=%s (coefficients of %s)' % (
                    rec['got'], rec['old'], rec['a'], rec['b'], rec['base']), dict(kind='resolve-malformed', rec=rec))
                continue
            if rec['kind'] == 'trace' and not all(isinstance(e['got'], int) and isinstance(e['after'], int)
                                                   for e in rec['events']):
                ck.violation('Length history with a non-integer observation', dict(kind='trace-malformed', rec=rec))
                continue
            recs.append(rec)
    bad, summ = judge.judge('JudgeLength', recs)
    ck.add_tlc(dict(generated=summ['generated'], distinct=summ['distinct'], wall_s=round(summ['wall_s'], 1)),
               'JudgeLength on %d records' % len(recs))
    ck.add_traces(len(recs))
    for b in bad:
        rec = recs[b]
        if rec['kind'] == 'resolve':
            ck.violation('Length._p_resolveConflict(old=%s, %s, %s) [coefficients of base %s] -> %s: not old + both changes' % (
                rec['old'], rec['a'], rec['b'], rec['base'], rec['got']), dict(kind='resolve-rejected', rec=rec))
        else:
            ck.violation('Length history rejected by the cell specification: %s' % rec['events'][:6],
                         dict(kind='trace-rejected', rec=rec))
    ck.sample(dict(kind='resolve record', rec=next((x for x in recs if x['kind'] == 'resolve'), None)))
    ck.sample(dict(kind='theorems', text='Commutes, AddsDeltas, OrderIndependent over Int (LengthProofs.tla)'))
    ck.assumptions += ['values are Python ints']
    ck.finish(exhaustive=True, extra_cov=dict(
        obligations=ob, discharged=proved, checker_cmd='tlapm --cleanfp specs/LengthProofs.tla',
        trusted_base=['tlapm 1.6.0-pre and its SMT/Zenon/Isabelle back ends', 'TLC 1.8 for the cell state machine',
                      'harness/workers/length_worker.py decomposition of big integers into coefficients']))


if __name__ == '__main__':
    main()
