"""C09 - the C extension and the pure-Python fallback are interchangeable."""
import json
from harness import common, tlc, embed, jobs, judge, tracecheck

K = ('role', 'code', 'x', 'cls', 'shape', 'c', 'py', 'unchanged_c', 'unchanged_py', 'same_result', 'same_contents', 'same_shape', 'same_pickle')


def main():
    ck = common.Check('C09')
    quick = ck.tier == 'quick'
    fams = (['II', 'OO', 'LF', 'fs', 'UQ' if False else 'QQ', 'OI', 'IO'] if quick else embed.FAMILIES)
    # 1. the argument sweep: every call kind x every argument class x shapes x kinds, C and Python side by side,
    #    judged by TLC against Domain (is the argument usable for the slot?) and the rules of the property
    results = jobs.run_jobs('harness.workers.sweep_worker', [dict(fam=f) for f in fams])
    allrecs, owners = [], []
    for job, res, err in results:
        if err:
            ck.violation('sweep worker died %s: %s' % (job['fam'], err[-1500:]), dict(fam=job['fam'], kind='crash', err=err[-3000:]))
            continue
        for r in res['records']:
            allrecs.append({k: r[k] for k in K})
            owners.append(dict(fam=job['fam'], kindname=r['kind'], call=r['call'], detail=r['detail']))
    bad, summ = judge.judge('JudgeSweep', allrecs)
    ck.add_tlc(dict(generated=summ['generated'], distinct=summ['distinct'], wall_s=round(summ['wall_s'], 1)),
               'JudgeSweep on %d paired calls (%d families)' % (len(allrecs), len(fams)))
    ck.add_traces(len(allrecs))
    det = summ.get('details', {})
    for b in bad:
        r, o = allrecs[b], owners[b]
        why = det.get(b, {}).get('why')
        ck.violation('%s %s (%s) %s(%s as %s): C %s, Python %s: %s (allowed: %s)' % (
            o['fam'], o['kindname'], r['shape'], o['call'], r['x'].get('t'), r['role'], r['c'], r['py'], why, det.get(b, {}).get('want')),
            dict(kind='sweep-rejected', why=why, fam=o['fam'], kindname=o['kindname'], call=o['call'], shape=r['shape'], role=r['role'],
                 code=r['code'], xclass=r['x'].get('t'), x=r['x'], c=r['c'], py=r['py'], cls=r['cls'], detail=o['detail'],
                 rec={k: r[k] for k in K if k.startswith('same') or k.startswith('unchanged')}))
    if allrecs:
        ck.sample(dict(kind='paired call', rec=allrecs[len(allrecs) // 2], owner=owners[len(allrecs) // 2]))
    # 2. paired random histories over the whole API: the C trace is validated by TLC against the sorted map
    #    (TraceMap), the Python side must be identical event for event, with equal shape and equal pickle
    plan = []
    for fam in fams:
        for kind in ('BTree', 'Bucket', 'TreeSet', 'Set'):
            for (lf, it, nk) in ((2, 2, 12), (3, 2, 16), (None, None, 16)):
                plan.append(dict(fam=fam, kind=kind, leaf=lf, internal=it, nkeys=nk, ntraces=3 if quick else 30,
                                 length=60 if quick else 200, seed=ck.seed * 1000 + len(plan), emb='ext' if len(plan) % 2 else 'mid'))
    # object keys that are orderable but unhashable (lists): sets and set operations must get by with comparisons alone
    for kind in ('TreeSet', 'Set'):
        for (lf, it, nk) in ((2, 2, 12), (None, None, 16)):
            plan.append(dict(fam='OO', kind=kind, leaf=lf, internal=it, nkeys=nk, ntraces=3 if quick else 30,
                             length=60 if quick else 200, seed=ck.seed * 1000 + 900 + len(plan), emb='lst'))
    results = jobs.run_jobs('harness.workers.pair_worker', plan)
    traces, towners = [], []
    for job, res, err in results:
        ident = dict(fam=job['fam'], kind=job['kind'], sizes=[job['leaf'], job['internal']], seed=job['seed'])
        if err:
            ck.violation('pair worker died %s: %s' % (ident, err[-1500:]), dict(ident, kind='crash', err=err[-3000:]))
            continue
        ck.bump('paired_calls', res['counts']['calls'])
        for d in res['diffs']:
            ck.violation('%s %s sizes=%s: after %s: C and Python differ in %s: C %s, Python %s' % (
                ident['fam'], ident['kind'], ident['sizes'], d['event'], d['what'], str(d['c'])[:120], str(d['py'])[:120]),
                dict(ident, kind='pair-differs', what=d['what'], call=d['event'].get('op'), valcode=ident['fam'][1], c0=str(d['c'][0]) if isinstance(d['c'], list) and d['c'] else '', py0=str(d['py'][0]) if isinstance(d['py'], list) and d['py'] else '', event=d['event'], c=d['c'], py=d['py']))
        for tr in res['traces']:
            if all(tracecheck.wellformed_event(e) for e in tr):
                traces.append(tr)
                towners.append(ident)
            else:
                e = [e for e in tr if not tracecheck.wellformed_event(e)][0]
                ck.violation('%s: recorded call outside the model vocabulary: %s' % (ident, e), dict(ident, kind='malformed-event', event=e))
    if traces:
        bad, summ = judge.judge('TraceMap', traces, chunk=4000)
        ck.add_tlc(dict(generated=summ['generated'], distinct=summ['distinct'], wall_s=round(summ['wall_s'], 1)),
                   'TraceMap validation of %d C-side histories of the paired runs' % len(traces))
        ck.add_traces(len(traces))
        for (ti, line) in bad:
            e = traces[ti][line]
            ck.violation('%s: C call %s(k=%s,v=%s) -> %s with contents %s is not a step of the sorted map' % (
                towners[ti], e['op'], e['k'], e['v'], e['res'], e['keys']), dict(towners[ti], kind='trace-rejected', op=e['op'], line=line))
    # (3) multiunion side by side: the same operand lists (sizes on both sides of the switch to the radix sort, both
    #     extremes, mixed signs) given to the C and to the Python multiunion
    mplan = []
    for fam in (['II', 'LL', 'UU', 'QF'] if quick else embed.INT_KEY_FAMILIES):
        for impl in ('c', 'py'):
            mplan.append(dict(fam=fam, impl=impl, seed=ck.seed * 100 + 7, totals=[0, 1, 7, 799, 801, 1300] if quick else [0, 1, 7, 100, 799, 800, 801, 1600, 5000],
                              reps=2 if quick else 4, nkeys=2400))
    by = {}
    for job, res, err in jobs.run_jobs('harness.workers.multi_worker', mplan):
        if err:
            ck.violation('multiunion worker died %s %s: %s' % (job['fam'], job['impl'], err[-1500:]), dict(kind='crash', fam=job['fam'], impl=job['impl'], err=err[-3000:]))
            continue
        by[(job['fam'], job['impl'])] = res['records']
    for fam in sorted({f for f, _ in by}):
        rc, rp = by.get((fam, 'c')), by.get((fam, 'py'))
        if rc is None or rp is None:
            continue
        ck.bump('multiunion_pairs', len(rc))
        ck.add_traces(len(rc))
        for a, b in zip(rc, rp):
            if a['ops'] != b['ops']:
                common.machinery_failure('paired multiunion runs diverged in their operands')
            if (a['kind'], a['got'], a['len'], a['probe'], a['range']) != (b['kind'], b['got'], b['len'], b['probe'], b['range']):
                ck.violation('%s: multiunion of %d elements in %d operands: C and Python differ (C %s %s..., Python %s %s...)' % (
                    fam, a['total'], len(a['ops']), a['kind'], str(a['got'][:12]), b['kind'], str(b['got'][:12])),
                    dict(kind='multiunion-pair-differs', fam=fam, total=a['total'], c=a['got'][:60], py=b['got'][:60]))
    # (4) conflict resolution side by side: the same triples of leaf states (every triple of a small universe) given to the
    #     C and to the Python _p_resolveConflict - merged state or refusal reason must be equal
    cplan = []
    for fam in (['II', 'OO'] if quick else ['II', 'OO', 'LF', 'fs', 'QQ', 'IO']):
        for is_set in (False, True):
            for impl in ('c', 'py'):
                cplan.append(dict(fam=fam, impl=impl, is_set=is_set, emb='mid', nkeys=3, nvals=2, links=[(0, 0, 0)],
                                  select=[2, ck.seed % 2] if quick else None))
    cby = {}
    for job, res, err in jobs.run_jobs('harness.workers.merge_worker', cplan):
        if err:
            ck.violation('merge worker died %s %s: %s' % (job['fam'], job['impl'], err[-1500:]), dict(kind='crash', fam=job['fam'], impl=job['impl'], err=err[-3000:]))
            continue
        d = {}
        for r in res['records']:
            # (records are distinct (triple, outcome) pairs: the set of outcomes of a triple - leaf, tree, subclassed tree -
            #  must be the same set in both implementations)
            d.setdefault(json.dumps([r['o'], r['c'], r['n'], r['xo'], r['xc'], r['xn'], r['forms']]), set()).add(json.dumps(r['got']))
        cby[(job['fam'], job['is_set'], job['impl'])] = d
    for (fam, is_set, impl), dc in sorted(cby.items()):
        if impl != 'c' or (fam, is_set, 'py') not in cby:
            continue
        dp = cby[(fam, is_set, 'py')]
        ck.bump('merge_pairs', len(dc))
        ck.add_traces(len(dc))
        for k in dc:
            if k in dp and dc[k] != dp[k]:
                ck.violation('%s %s: _p_resolveConflict%s: C %s, Python %s' % (fam, 'set' if is_set else 'map', k, sorted(dc[k]), sorted(dp[k])),
                             dict(kind='merge-pair-differs', fam=fam, is_set=is_set, triple=json.loads(k), c=sorted(dc[k]), py=sorted(dp[k])))
    ck.assumptions += ['excluded: message texts, the return value of update(); byValue is compared (finding D50)',
                       'keys of one container mutually comparable']
    ck.finish(exhaustive=False)


if __name__ == '__main__':
    main()
