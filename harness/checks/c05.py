"""C05 - evicting nodes from the object cache never changes behaviour."""
import json
from harness import common, tlc, shapes, embed, jobs, judge
from harness.checks.c04 import pcfg, trace_constants, same_val_registers, CODE_DEV, _renderable

EVK = ('op', 'k', 'v', 'lo', 'hi', 'xlo', 'xhi', 'path', 'res', 'sticky', 'proj', 'nreg', 'nrc', 'swept')


def validate_evict(ck, results):
    """histories recorded by the evict worker, judged by TraceEvict (results as the sorted map says, structure as Persist
    predicts, reads register and declare nothing, nothing pinned after any call); D18 / D35 attributed by the specification"""
    groups = {}
    for job, res, err in results:
        ident = dict(fam=job['fam'], impl=job['impl'], is_set=job['is_set'], sizes=[job['leaf'], job['internal']], seed=job['seed'],
                     kkeys=bool(job.get('kkeys')))
        if err:
            ck.violation('evict worker died %s: %s' % (ident, err), dict(ident, kind='crash', err=err))
            continue
        key = (job['leaf'], job['internal'], job['impl'], same_val_registers(job['fam'], job['impl'], job['is_set']), job['is_set'])
        for tr in res['traces']:
            groups.setdefault(key, []).append((ident, tr))
    for key, items in sorted(groups.items()):
        traces = [[{k: (1 if 'sweep_at' in e else 0) if k == 'swept' else e.get(k, 0) for k in EVK} for e in tr] for _, tr in items]
        sel = []
        cut = {}        # trace index -> first event that ended outside the model vocabulary (judged only up to there)
        for i, ((ident, tr), t) in enumerate(zip(items, traces)):
            for j, e in enumerate(t):
                odd = (not isinstance(e['res'], list) or
                       any(isinstance(x, str) and (x.startswith('exc') or '?' in x) for x in _flat(e['res'])) or
                       not _renderable([{k: v for k, v in e.items() if k not in ('res', 'xlo', 'xhi')}]))
                if odd:
                    cut[i] = j
                    traces[i] = t[:j]
                    break
            sel.append(i)
        bad, summ = judge.judge('TraceEvict', [traces[i] for i in sel], constants=trace_constants(*key), chunk=300)
        ck.add_tlc(dict(generated=summ['generated'], distinct=summ['distinct'], wall_s=round(summ['wall_s'], 1)),
                   'TraceEvict sizes=(%s,%s) impl=%s: %d histories' % (key[0], key[1], key[2], len(sel)))
        ck.add_traces(len(sel))
        ck.bump('trace_events', sum(len(traces[i]) for i in sel))
        ck.bump('sweeps_between_calls', sum(1 for i in sel for e in traces[i] if e['op'] in ('evict', 'evictall')))
        ck.bump('sweeps_inside_calls', sum(1 for i in sel for e in items[i][1] if 'sweep_at' in e))
        rejected = {sel[ti] for (ti, line) in bad if summ.get('details', {}).get((ti, line), {}).get('why') != 'D18-taint'}
        for i, j in cut.items():
            if i not in rejected:       # everything before was as specified, then a call ended with something unforeseen
                ident, tr = items[i]
                ck.violation('%s: a call ended outside the model vocabulary: %s' % (ident, tr[j]),
                             dict(ident, kind='malformed-trace', line=j, event=tr[j], history=[[x['op'], x['k'], x['v']] for x in tr[:j + 1]]))
        for (ti, line) in bad:
            ident, tr = items[sel[ti]]
            why = summ.get('details', {}).get((ti, line), {}).get('why')
            if why == 'D18-taint':
                ck.known_finding('D18')
                if 'D18' not in [f['id'] for f in ck.known]:
                    ck.violation('%s: a ghost came back from a stale record (inline-leaf deviations), finding not listed' % (ident,),
                                 dict(ident, kind='d18-unlisted', history=[[x['op'], x['k'], x['v']] for x in tr[:line + 1]]))
                continue
            e = tr[line]
            if why and why.startswith('D35:') and 'D35' in [f['id'] for f in ck.known]:
                # the specification attributes this rejection to the recorded finding (Python has no pins)
                ck.known_finding('D35')
                continue
            ck.violation('%s %s %s sizes=%s: event %d (%s k=%s%s) -> %s: %s' % (
                ident['fam'], ident['impl'], 'set' if ident['is_set'] else 'map', ident['sizes'], line, e['op'], e['k'],
                ', sweep inside comparison %s' % e['sweep_at'] if 'sweep_at' in e else '', e['res'], why),
                dict(ident, kind='trace-rejected', why=why, line=line, swept=('sweep_at' in e),
                     opclass='write' if e['op'] in ('setitem', 'delitem', 'pop', 'setdefault', 'clear') else 'other', history=[[x['op'], x['k'], x['v'], x.get('path')] for x in tr[:line + 1]], event=e))
        if sel:
            ck.sample(dict(kind='validated history (first events)', owner=items[sel[0]][0],
                           events=[[e['op'], e['k'], e['res'], e['sticky']] for e in items[sel[0]][1][:8]]))


def main():
    ck = common.Check('C05')
    quick = ck.tier == 'quick'
    # 1. TLC.  (a) Persist: turning every evictable node into a ghost and loading it back changes nothing,
    #    in every state of every history (design); with the code's inline-leaf deviations it does (finding D18)
    for (nk, nv, mc, mo) in ([(3, 1, 3, 3), (4, 1, 2, 3)] if quick else [(4, 1, 3, 3), (5, 1, 2, 4), (3, 2, 3, 3)]):
        r = tlc.run('Persist', pcfg(nk, nv, 2, 2, mc, mo, invs=('EvictTransparent', 'WriterOK')), timeout=3400)
        ck.add_tlc(r.summary(), 'Persist EvictTransparent keys=%d vals=%d commits<=%d ops<=%d' % (nk, nv, mc, mo))
        common.tlc_verdict(ck, r, ck.notes['tlc_runs'][-1]['name'])
    r = tlc.run('Persist', pcfg(3, 1, 2, 2, 3, 3, dev=CODE_DEV, invs=('EvictTransparent',)), timeout=3000)
    ck.add_tlc(r.summary(), 'Persist EvictTransparent with the code\'s deviations (must be refuted)')
    if r.violation != 'EvictTransparent':
        ck.violation('EvictTransparent is not refuted with the inline-leaf deviations', dict(kind='vacuity', out=r.out[-1500:]))
    #    (b) Cmp: the node a comparison reads is pinned at that comparison (get / set / delete, every key, every shape);
    #    the same run prints the expected comparison events for the replay below
    evdumps = []
    for (nk, lf, it) in ([(5, 2, 2), (4, 3, 2)] if quick else [(6, 2, 2), (6, 3, 2), (6, 2, 3)]):
        c = shapes.cfg(nk, 1, lf, it, spec='SpecCore', invariants=('ReadPinned', 'DumpEv'))
        payloads, summ = tlc.cached_payloads('Cmp', c, 'CE', workers=1, timeout=3400)
        ck.add_tlc(summ, 'Cmp ReadPinned + expected comparison events keys=%d sizes=(%d,%d)' % (nk, lf, it))
        key = tlc.spec_hash('Cmp', c, 'CE', None, None, None)
        fn, p2, s2 = shapes.dump_file(nk, 1, lf, it, spec='SpecCore')
        #    CmpRange: the same for the range machinery (BTree_findRangeEnd, BTree_rangeSearch, BTree_maxminKey)
        cr = shapes.cfg(nk, 1, lf, it, spec='SpecCore', invariants=('RangeReadPinned', 'EndpointCmpOK', 'DumpEvR'))
        rpay, rsumm = tlc.cached_payloads('CmpRange', cr, 'CR', workers=1, timeout=3400)
        ck.add_tlc(rsumm, 'CmpRange RangeReadPinned + expected comparison events of range calls keys=%d sizes=(%d,%d)' % (nk, lf, it))
        rkey = tlc.spec_hash('CmpRange', cr, 'CR', None, None, None)
        evdumps.append((nk, lf, it, '%s/dumps/Cmp-%s.json' % (tlc.CACHE, key), fn, len(payloads), '%s/dumps/CmpRange-%s.json' % (tlc.CACHE, rkey)))
    # 2. spec -> code (C, object keys): pinned sets at every comparison, sweeps inside every comparison
    plan = []
    for (nk, lf, it, evfn, fn, n, revfn) in evdumps:
        idx = list(range(n))
        ck.rng.shuffle(idx)
        idx = idx[:120] if quick else idx
        parts = 8
        for is_set in (True, False):
            for p in range(parts):
                plan.append(dict(impl='c', is_set=is_set, leaf=lf, internal=it, dump=fn, events=evfn, revents=revfn, indices=sorted(idx[p::parts]), query_every=4 if quick else 1))
    results = jobs.run_jobs('harness.workers.pins_worker', plan)
    for job, res, err in results:
        ident = dict(impl=job['impl'], is_set=job['is_set'], sizes=[job['leaf'], job['internal']])
        if err:
            ck.violation('pins worker died %s: %s' % (ident, err), dict(ident, kind='crash', err=err))
            continue
        for k, v in res['counts'].items():
            ck.bump('pins_' + k, v)
        ck.add_traces(res['counts']['calls'] + res['counts']['sweeps'])
        for mm in res['mismatches']:
            ck.violation('OO %s sizes=%s %s(%s): %s' % ('set' if mm['is_set'] else 'map', mm['sizes'], mm['op'], mm['k'], mm['kind']), mm)
    # 3. code -> spec: histories with sweeps between the calls (all kinds of calls, failing ones too), all
    #    families, C and Python; with instrumented keys also sweeps fired inside a comparison of any call
    fams = (['II', 'OO', 'LF', 'fs', 'OI'] if quick else embed.FAMILIES)
    plan = []
    for fam in fams:
        for impl in ('c', 'py'):
            for is_set in (True, False):
                for (lf, it, nk) in ((2, 2, 8), (3, 2, 10), (2, 3, 12)):
                    if quick and len(plan) % 3 and (lf, it) != (2, 2):
                        continue
                    plan.append(dict(fam=fam, impl=impl, is_set=is_set, leaf=lf, internal=it, nkeys=nk,
                                     ntraces=(24 if impl == 'c' else 10) if quick else 200, length=50 if quick else 80,
                                     seed=ck.seed * 100000 + len(plan), pure=(impl == 'py'),
                                     emb='ext' if len(plan) % 3 == 0 else 'mid'))
    # deep trees: growth phases (ascending / descending / random runs of inserts) with sweeps in between, 15 keys
    for fam in (['II', 'OO'] if quick else fams):
        for impl in ('c', 'py'):
            for is_set in (True, False):
                for (lf, it) in ((2, 2), (2, 4), (3, 3)):
                    if quick and impl == 'py' and (lf, it) != (2, 2):
                        continue
                    plan.append(dict(fam=fam, impl=impl, is_set=is_set, leaf=lf, internal=it, nkeys=15, grow=True,
                                     ntraces=(16 if impl == 'c' else 6) if quick else 150, length=60 if quick else 90,
                                     seed=ck.seed * 100000 + 9000 + len(plan), pure=(impl == 'py'), emb='mid'))
    for impl in ('c', 'py'):
        for is_set in (True, False):
            for (lf, it, nk) in ((2, 2, 10), (3, 2, 12), (2, 3, 12)):
                plan.append(dict(fam='OO', impl=impl, is_set=is_set, leaf=lf, internal=it, nkeys=nk, kkeys=True,
                                 ntraces=(40 if impl == 'c' else 15) if quick else 400, length=50 if quick else 80,
                                 seed=ck.seed * 100000 + 5000 + len(plan), pure=(impl == 'py')))
    results = jobs.run_jobs('harness.workers.evict_worker', plan, pure=True)
    validate_evict(ck, results)
    # 4. spec -> code: cursors held across sweeps.  Behaviours of Iter.tla (an iterator or a lazy sequence opened
    #    over a range, stepped in some interleaving with mutations) replayed with the tree in the data manager:
    #    committed when the cursor is opened, the whole cache swept before every cursor step - the leaf the cursor
    #    is parked on becomes a ghost again and again.  Outcomes and structure must be exactly Iter's.
    from harness.checks.c15 import icfg
    plan = []
    for (nk, lf, it, num, depth, mu, mo) in ([(8, 2, 2, 500, 40, 14, 5), (8, 3, 2, 300, 40, 12, 6)] if quick else
                                             [(8, 2, 2, 4000, 44, 16, 5), (8, 3, 2, 2500, 44, 14, 6), (8, 2, 3, 2500, 44, 14, 6), (16, 2, 2, 3000, 90, 18, 11)]):
        c = icfg(nk, 2, lf, it, mu, mo, 4, spec='SSpec', invs=('OutcomeOK', 'InBounds'), view=False)
        fn, behs, summ = tlc.simulate_behaviours('IterSim', c, num, depth, seed=ck.seed + 1)
        ck.add_tlc(summ, 'IterSim simulation keys=%d sizes=(%d,%d): %d behaviours (cursors held across sweeps)' % (nk, lf, it, len(behs)))
        for fam in (['II', 'OO', 'fs'] if quick else ['II', 'OO', 'fs', 'LF', 'OI', 'QQ', 'IO', 'UU']):
            for impl in ('c', 'py'):
                for is_set in (True, False):
                    nparts = 1 if quick else 2
                    for p in range(nparts):
                        plan.append(dict(fam=fam, impl=impl, is_set=is_set, leaf=lf, internal=it, dump=fn, part=p, nparts=nparts,
                                         pure=(impl == 'py'), evict=True))
                        if impl == 'c' and fam in ('II', 'OO'):
                            # no sweeps, but a commit before every cursor step: the leaf the cursor is parked on is up to date
                            # when the step runs, so a pin it left behind (also on a step that raises) shows afterwards
                            plan.append(dict(fam=fam, impl=impl, is_set=is_set, leaf=lf, internal=it, dump=fn, part=p, nparts=nparts,
                                             persist=True, midcommit=True))
    results = jobs.run_jobs('harness.workers.iter_worker', plan, pure=True)
    for job, res, err in results:
        ident = dict(fam=job['fam'], impl=job['impl'], is_set=job['is_set'], sizes=[job['leaf'], job['internal']])
        if err:
            ck.violation('cursor worker died %s: %s' % (ident, err[-1500:]), dict(ident, kind='crash', err=err[-3000:]))
            continue
        for k in ('behaviours', 'cursor_steps', 'sweeps', 'ghosts_made', 'evict_behaviours', 'skipped_embed'):
            ck.bump('cursor_%s' % k, res['counts'][k])
        ck.add_traces(res['counts']['evict_behaviours'])
        for mm in res['mismatches']:
            ck.violation('%s %s %s sizes=%s cursor held across sweeps: %s after %s' % (
                mm['fam'], mm['impl'], 'set' if mm['is_set'] else 'map', mm['sizes'], mm['kind'], mm['history'][-4:]), dict(mm, kind='cursor-' + mm['kind']))
    if plan and not ck.notes.get('cursor_ghosts_made') and not ck.violations:
        common.machinery_failure('the sweeps before cursor steps evicted nothing')
    # 5. set algebra on evicted operands: the operands (Set, TreeSet, Bucket, BTree of every kind combination) are stored
    #    in the data manager and the cache is swept, so every call of union / intersection / difference / the operators /
    #    in-place forms / isdisjoint / weightedUnion / multiunion starts on ghosts; results judged by SetAlgebra as in C10/C11
    from harness.checks.c10 import run_setops
    splan = []
    for fam in (['OO', 'II', 'LF'] if quick else ['OO', 'II', 'LF', 'fs', 'QQ', 'IO', 'UU', 'OI']):
        for impl in ('c', 'py'):
            splan.append(dict(fam=fam, impl=impl, emb='mid', nkeys=5, ghost=True, pure=(impl == 'py'),
                              seed=ck.seed * 100 + 300 + len(splan), maxpairs=(500 if impl == 'c' else 200) if quick else 8000))
            if fam in ('II', 'LF'):
                splan.append(dict(fam=fam, impl=impl, emb='mid', nkeys=3, ghost=True, weighted=True, pure=(impl == 'py'),
                                  seed=ck.seed * 100 + 300 + len(splan), maxpairs=(300 if impl == 'c' else 120) if quick else 4000))
    run_setops(ck, splan, 'C05')
    mplan = []
    for fam in (['II', 'LL', 'QQ'] if quick else embed.INT_KEY_FAMILIES):
        for impl in ('c', 'py'):
            mplan.append(dict(fam=fam, impl=impl, seed=ck.seed * 100 + 400 + len(mplan), totals=[1, 7, 60, 801], reps=2, ghost=True, nkeys=1200,
                              pure=(impl == 'py')))
    mres = jobs.run_jobs('harness.workers.multi_worker', mplan, pure=True)
    mrecs, mown = [], []
    for job, res, err in mres:
        ident = dict(fam=job['fam'], impl=job['impl'])
        if err:
            ck.violation('multiunion worker died %s: %s' % (ident, err[-1500:]), dict(ident, kind='crash', err=err[-3000:]))
            continue
        for r in res['records']:
            if not all(isinstance(x, int) for x in r['got'] + r['range']) or r['kind'].startswith('exc'):
                ck.violation('%s %s: multiunion of evicted operands (%d elements) -> %s %s' % (ident['fam'], ident['impl'], r['total'], r['kind'], str(r['got'])[:100]),
                             dict(ident, kind='multiunion-malformed', total=r['total']))
                continue
            mrecs.append(r)
            mown.append(ident)
    if mrecs:
        bad, summ = judge.judge('JudgeMulti', mrecs, chunk=300)
        ck.add_tlc(dict(generated=summ['generated'], distinct=summ['distinct'], wall_s=round(summ['wall_s'], 1)), 'JudgeMulti on %d results of multiunion on evicted operands' % len(mrecs))
        ck.add_traces(len(mrecs))
        for b in bad:
            r, ident = mrecs[b], mown[b]
            ck.violation('%s %s: multiunion of %d elements in %d evicted operands: result of %d keys is not the union' % (ident['fam'], ident['impl'], r['total'], len(r['ops']), len(r['got'])),
                         dict(ident, kind='multiunion-rejected-ghost', total=r['total'], got_head=r['got'][:40]))
    ck.assumptions += ['stand-in data manager with a persistent.PickleCache (harness/minijar.py); sweeps are cache.minimize() and _p_deactivate()',
                       'pins are observed through _p_state (2 = sticky)']
    ck.finish(exhaustive=False)


def _flat(x):
    if isinstance(x, list):
        for y in x:
            yield from _flat(y)
    else:
        yield x


if __name__ == '__main__':
    main()
