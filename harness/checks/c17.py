"""C17 - running out of memory inside an operation is reported, not corrupting."""
import json
from harness import common, tlc, shapes, jobs, proj as P

DEVS = ('SplitLenBeforeAlloc', 'GrowSizeBeforeRealloc', 'NoClearOnFirstFail', 'GrowFreesKeysOnValueFail')
AINV = ('CapOK', 'AbsOK', 'SoundF', 'OverfullOnlyAfterFault', 'FaultSeen', 'ErrIsMemoryError', 'Recovers', 'SameAsSetR')


def acfg(nk, lf, it, is_set, minalloc=16, maxf=8, maxfaults=1, spec='ASpec', dev=(), invs=AINV, dump=False, view=True):
    return """SPECIFICATION %s
CONSTANTS
  Keys = {%s}
  Vals = {1}
  MaxLeaf = %d
  MaxInt = %d
  Dev = {%s}
  IsSet = %s
  MinAlloc = %d
  MaxF = %d
  MaxFaults = %d
%sCONSTRAINT FaultBound
%s%s""" % (spec, ','.join(map(str, range(1, nk + 1))), lf, it, ','.join('"%s"' % d for d in dev), 'TRUE' if is_set else 'FALSE',
           minalloc, maxf, maxfaults, 'VIEW AView\n' if view else '', ''.join('INVARIANT %s\n' % i for i in invs),
           'ACTION_CONSTRAINT %s\n' % ('ADumpEff' if dump else 'NoIdleF'))


def alloc_model(ck, quick):
    """the allocation-granular specification: design checks, must-refute deviations, and exact conformance"""
    # 1. TLC on Alloc: every reachable (tree, capacities) state under up to MaxFaults failed calls, every fault index
    LIGHT = ('CapOK', 'AbsOK', 'SoundF', 'OverfullOnlyAfterFault', 'FaultSeen', 'ErrIsMemoryError')
    for (nk, lf, it, is_set, ma, mf, invs) in ([(4, 2, 2, False, 16, 2, AINV), (4, 2, 2, True, 2, 2, AINV), (4, 3, 2, False, 2, 2, AINV), (5, 2, 2, False, 16, 1, LIGHT)] if quick else
                                               [(4, 2, 2, False, 16, 3, AINV), (4, 2, 2, True, 2, 3, AINV), (4, 3, 2, False, 2, 3, AINV), (5, 2, 2, False, 16, 1, AINV), (5, 2, 2, False, 16, 2, LIGHT), (5, 2, 2, True, 2, 2, LIGHT), (5, 3, 2, False, 2, 2, LIGHT), (5, 2, 3, False, 16, 1, LIGHT)]):
        r = tlc.run('Alloc', acfg(nk, lf, it, is_set, minalloc=ma, maxfaults=mf, invs=invs), timeout=3400)
        name = 'Alloc keys=%d sizes=(%d,%d) %s MIN_BUCKET_ALLOC=%d failed calls<=%d' % (nk, lf, it, 'set' if is_set else 'map', ma, mf)
        ck.add_tlc(r.summary(), name)
        common.tlc_verdict(ck, r, name)
    # 2. non-vacuity: each named deviation (pre-fix D20, and three ways of getting the unwind wrong) must be refuted
    for d in DEVS:
        r = tlc.run('Alloc', acfg(4, 2, 2, False, minalloc=2, maxfaults=2, dev=(d,)), timeout=1800)
        if not r.violation:
            common.machinery_failure('Alloc with deviation %s was not refuted (%s)' % (d, r.error))
        ck.note('refuted_' + d, r.violation)
    # 3. spec -> code, exhaustive instance: every transition TLC explored (failed calls included), replayed exactly
    plan = {}
    for (nk, lf, it, is_set, mf) in ([(4, 2, 2, False, 2), (4, 2, 2, True, 2)] if quick else [(4, 2, 2, False, 3), (4, 2, 2, True, 3), (4, 3, 2, False, 2), (5, 2, 2, False, 1), (5, 2, 2, True, 1)]):
        c = acfg(nk, lf, it, is_set, maxfaults=mf, spec='ASpecCore', invs=(), dump=True)
        payloads, summ = tlc.cached_payloads('Alloc', c, 'TR', workers=1, timeout=7200)
        fn = tlc.os.path.join(tlc.CACHE, 'dumps', 'Alloc-%s.json' % tlc.spec_hash('Alloc', c, 'TR', None, None, None))
        ck.add_tlc(summ, 'Alloc dump keys=%d sizes=(%d,%d) %s failed calls<=%d: %d transitions' % (nk, lf, it, 'set' if is_set else 'map', mf, len(payloads)))
        idx = list(range(len(payloads)))
        ck.rng.shuffle(idx)
        # every faulting transition, and a sample of the others (their paths are verified step by step as well)
        faulting = [i for i in idx if payloads[i]['err']]
        rest = [i for i in idx if not payloads[i]['err']]
        budget = 800 if quick else len(idx)
        sel = faulting[:budget] + rest[:max(200, budget - len(faulting))]
        plan[(fn, lf, it, is_set)] = ('dump', sel)
    # 4. spec -> code, deep: behaviours of the simulator (16 keys, several failed calls in a row)
    for (nk, lf, it, is_set, num, depth) in ([(12, 2, 2, False, 160, 50), (16, 3, 2, True, 120, 60)] if quick else
                                             [(12, 2, 2, False, 3000, 60), (12, 2, 2, True, 3000, 60), (16, 3, 2, False, 2000, 70), (16, 2, 3, True, 2000, 70), (16, 4, 3, False, 2000, 90)]):
        c = acfg(nk, lf, it, is_set, maxf=12, maxfaults=99, spec='SSpec', invs=('CapOK', 'AbsOK', 'SoundF'), view=False).replace('ACTION_CONSTRAINT NoIdleF\n', '')
        fn, behs, summ = tlc.simulate_behaviours('AllocSim', c, num, depth, seed=ck.seed + 5)
        ck.add_tlc(summ, 'AllocSim simulation keys=%d sizes=(%d,%d) %s: %d behaviours' % (nk, lf, it, 'set' if is_set else 'map', len(behs)))
        plan[(fn, lf, it, is_set)] = ('behaviours', len(behs))
    for flavour in ('plain', 'asan'):
        jobsl = []
        fams = (['II', 'OO', 'LF', 'fs'] if quick else ['II', 'OO', 'LF', 'fs', 'OI', 'IO', 'QQ', 'UF', 'LL'])
        if flavour == 'asan':
            fams = fams[1:2] if quick else fams[:4]
        for (fn, lf, it, is_set), (mode, what) in plan.items():
            for fam in fams:
                if fam == 'fs' and is_set:
                    continue
                if mode == 'dump':
                    parts = 2
                    for p in range(parts):
                        jobsl.append(dict(mode='dump', fam=fam, is_set=is_set, leaf=lf, internal=it, dump=fn, indices=what[p::parts]))
                else:
                    jobsl.append(dict(mode='behaviours', fam=fam, is_set=is_set, leaf=lf, internal=it, dump=fn, part=0, nparts=1))
        results = jobs.run_jobs('harness.workers.alloc_worker', jobsl, flavour=flavour)
        for job, res, err in results:
            ident = dict(fam=job['fam'], is_set=job['is_set'], sizes=[job['leaf'], job['internal']], build=flavour, mode=job['mode'])
            if err:
                ck.violation('alloc worker died on the %s build %s: %s' % (flavour, ident, err[-1500:]), dict(ident, kind='crash', err=err[-3000:]))
                continue
            for k, v in res['counts'].items():
                if k == 'max_allocs':
                    ck.notes['alloc_max_allocs_per_call'] = max(ck.notes.get('alloc_max_allocs_per_call', 0), v)
                else:
                    ck.bump('alloc_%s_%s' % (flavour, k), v)
            ck.add_traces(res['counts']['calls'])
            for mm in res['mismatches']:
                ck.violation('%s %s %s build sizes=%s: %s at %s (fault index %s) after %s' % (
                    mm['fam'], 'set' if mm['is_set'] else 'map', flavour, mm['sizes'], mm['kind'], json.dumps(mm['act']), mm['fail_at'],
                    json.dumps(mm['history'][-5:-1])), dict(mm, build=flavour))
        if jobsl:
            ck.sample(dict(kind='alloc job', build=flavour, job={k: v for k, v in jobsl[0].items() if k != 'indices'}))
    if (not ck.notes.get('alloc_plain_faulted_calls') or not ck.notes.get('alloc_plain_overfull_states')) and not ck.violations:
        common.machinery_failure('the exact replay exercised no failing call / no over-long node')


def main():
    ck = common.Check('C17', level='model_checking')
    quick = ck.tier == 'quick'
    alloc_model(ck, quick)
    # 1. TLC: the specification supplies the oracle -- source and target state of every transition of the bounded
    #    instance (BTreeImpl refines the sorted map, Sound holds) -- for "previous contents or the completed change"
    dumps = []
    for (nk, nv, lf, it) in ([(5, 2, 2, 2), (5, 1, 3, 2)] if quick else [(6, 1, 2, 2), (5, 2, 2, 2), (6, 1, 3, 2), (5, 2, 2, 3), (6, 1, 4, 2)]):
        r = tlc.run('BTreeImpl', shapes.cfg(nk, nv, lf, it, invariants=('AbsOK', 'ResOK', 'Sound')), timeout=3400)
        ck.add_tlc(r.summary(), 'BTreeImpl keys=%d vals=%d sizes=(%d,%d)' % (nk, nv, lf, it))
        common.tlc_verdict(ck, r, ck.notes['tlc_runs'][-1]['name'])
        fn, payloads, summ = shapes.dump_file(nk, nv, lf, it)
        # transitions that allocate: a key is added (leaf growth, splits at every level, root split, first leaf)
        grow = [i for i, tr in enumerate(payloads) if tr['act']['op'] in ('setitem', 'insert', 'setdefault')
                and len(P.flatten(tr['to'])[0]) > len(P.flatten(tr['from'])[0])]
        split = [i for i in grow if P.nleaves(payloads[i]['to']) > P.nleaves(payloads[i]['from']) or P.depth(payloads[i]['to']) > P.depth(payloads[i]['from'])]
        dumps.append((fn, grow, split, nk, lf, it))
    deep = []
    from harness import replayplan as RP
    # (interior size 3 as well: with size 2 the child at the split point of a non-root node is always on the path or new)
    for (nk, nv, lf, it, num, depth) in ([(16, 1, 2, 2, 60, 60), (16, 1, 2, 3, 60, 60)] if quick else [(16, 1, 2, 2, 300, 80), (16, 1, 2, 3, 300, 80), (16, 1, 3, 2, 100, 80)]):
        fn, payloads, summ = RP.sim_dump(ck, nk, nv, lf, it, num, depth, spec='SpecEff')
        ck.add_tlc(summ, 'simulated deep shapes keys=%d sizes=(%d,%d)' % (nk, lf, it))
        grow = [i for i, tr in enumerate(payloads) if tr['act']['op'] in ('setitem', 'insert')
                and len(P.flatten(tr['to'])[0]) > len(P.flatten(tr['from'])[0])]
        def upper(p):
            """interior nodes whose children are interior nodes"""
            if p['t'] == 'L' or not p['kids']:
                return 0
            return (1 if p['kids'][0]['t'] == 'I' else 0) + sum(upper(c) for c in p['kids'])
        # (first the calls that split an interior node whose children are interior nodes - BTree_split has to look into the
        #  child at the split point, a ghost here -, deepest trees first; then the other splits)
        ck.rng.shuffle(grow)
        hard = sorted([i for i in grow if upper(payloads[i]['to']) > upper(payloads[i]['from']) and P.depth(payloads[i]['from']) >= 2],
                      key=lambda i: (0 if P.depth(payloads[i]['to']) > P.depth(payloads[i]['from']) else 1,     # root splits first,
                                     payloads[i]['act']['k']))                                                  # leftmost paths first
        other = [i for i in grow if P.nleaves(payloads[i]['to']) > P.nleaves(payloads[i]['from']) and i not in set(hard)]
        split = hard[:(80 if quick else 800)] + other
        deep.append((fn, grow, split, nk, lf, it))
    # 2. fault enumeration on the real C code (hook build), every allocation index of every selected call;
    #    then again on the sanitizer build
    for flavour in ('plain', 'asan'):
        plan = []
        for (fn, grow, split, nk, lf, it) in dumps:
            ck.rng.shuffle(grow)
            ck.rng.shuffle(split)
            b = (400 if flavour == 'plain' else 120) if quick else (len(grow) if flavour == 'plain' else len(grow) // 3)
            sel = sorted(set(split[:b // 2] + grow[:b // 2]))
            fams = (['II', 'OO', 'LF', 'fs'] if quick else ['II', 'OO', 'LF', 'fs', 'OI', 'IO', 'QQ', 'UF', 'LL'])
            parts = 2
            for fam in fams:
                for is_set in (True, False):
                    for p in range(parts):
                        plan.append(dict(fam=fam, is_set=is_set, leaf=lf, internal=it, nkeys=nk, dump=fn, indices=sel[p::parts],
                                         partb=True, partb_every=3 if quick else 1, partb_cap=10 if quick else 40))
        # ... inserts on *stored* trees with every node evicted (deep trees from the simulator: splits of interior nodes whose
        #     children are interior nodes, all of them ghosts), and multiunion on both sides of the switch to the radix sort
        for (fn, grow, split, nk, lf, it) in deep:
            sel = sorted(set(split[:(100 if quick else 1000)] + grow[:(30 if quick else 300)]))
            if flavour == 'asan':
                sel = sorted(set(split[:(80 if quick else 800)] + sel[::3]))        # (the hard splits all, a third of the rest)
            for fam in (['II', 'OO'] if quick else ['II', 'OO', 'LF', 'fs', 'QQ']):
                for is_set in (True, False):
                    plan.append(dict(fam=fam, is_set=is_set, leaf=lf, internal=it, nkeys=nk, dump=fn, indices=sel[(0 if is_set else 1)::2],
                                     partb=False, stored=True, bigmulti=is_set))
        results = jobs.run_jobs('harness.workers.oom_worker', plan, flavour=flavour)
        for job, res, err in results:
            ident = dict(fam=job['fam'], is_set=job['is_set'], sizes=[job['leaf'], job['internal']], build=flavour)
            if err:
                ck.violation('oom worker died on the %s build %s: %s' % (flavour, ident, err[-1500:]), dict(ident, kind='crash', err=err[-3000:]))
                continue
            for k, v in res['counts'].items():
                ck.bump('%s_%s' % (flavour, k), v)
            ck.add_traces(res['counts']['faults'] + res['counts']['partb_faults'])
            for mm in res['mismatches']:
                ck.violation('%s %s %s build sizes=%s: %s, failing allocation %s of %s: %s' % (
                    mm['fam'], 'set' if mm['is_set'] else 'map', flavour, mm['sizes'], mm.get('op') or json.dumps(mm.get('act')),
                    mm.get('fail_at'), mm.get('allocations'), mm['kind']), dict(mm, build=flavour))
        if plan:
            ck.sample(dict(kind='oom job', build=flavour, job={k: v for k, v in plan[0].items() if k != 'indices'}, transitions=len(plan[0]['indices'])))
    faults = ck.notes.get('plain_faults', 0) + ck.notes.get('plain_partb_faults', 0)
    ck.cov['evaluations'] = faults + ck.notes.get('asan_faults', 0) + ck.notes.get('asan_partb_faults', 0)
    ck.cov['distinct_nontrivial'] = faults
    ck.cov['rule'] = ('one evaluation = one call repeated with one allocation index failing (BTree_Malloc/BTree_Realloc countdown hook); '
                      'distinct = (family, kind, source state, call, allocation index) on the plain build; the sanitizer build repeats a subset')
    ck.assumptions += ['allocations are those made through BTree_Malloc/BTree_Realloc (node objects come from the Python allocator, the radix work buffer from plain malloc)',
                       'hook compiled in with -DBTREES_VERIF=1 (guard BTREES_VERIF)']
    ck.finish(exhaustive=not quick)


if __name__ == '__main__':
    main()
