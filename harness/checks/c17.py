"""C17 - running out of memory inside an operation is reported, not corrupting."""
import json
from harness import common, tlc, shapes, jobs, proj as P


def main():
    ck = common.Check('C17', level='fault_enumeration')
    quick = ck.tier == 'quick'
    # 1. TLC: the specification supplies the oracle -- source and target state of every transition of the bounded
    #    instance (BTreeImpl refines the sorted map, Sound holds) -- for "previous contents or the completed change"
    dumps = []
    for (nk, nv, lf, it) in ([(5, 2, 2, 2), (5, 1, 3, 2)] if quick else [(6, 1, 2, 2), (5, 2, 2, 2), (6, 1, 3, 2), (5, 2, 2, 3), (6, 1, 4, 2)]):
        r = tlc.run('BTreeImpl', shapes.cfg(nk, nv, lf, it, invariants=('AbsOK', 'ResOK', 'Sound')), timeout=3400)
        ck.add_tlc(r.summary(), 'BTreeImpl keys=%d vals=%d sizes=(%d,%d)' % (nk, nv, lf, it))
        common.tlc_verdict(ck, r, ck.notes['tlc_runs'][-1]['name'])
        fn, payloads, summ = shapes.dump_file(nk, nv, lf, it)
        # transitions that allocate: a key is added (leaf growth, splits at every level, root split, first leaf)
        grow = [i for i, tr in enumerate(payloads) if tr['act']['op'] in ('setitem', 'insert', 'setdefault')
                and len(P.flatten(tr['to'])[0]) > len(P.flatten(tr['from'])[0])]
        split = [i for i in grow if P.nleaves(payloads[i]['to']) > P.nleaves(payloads[i]['from']) or P.depth(payloads[i]['to']) > P.depth(payloads[i]['from'])]
        dumps.append((fn, grow, split, nk, lf, it))
    # 2. fault enumeration on the real C code (hook build), every allocation index of every selected call;
    #    then again on the sanitizer build
    for flavour in ('plain', 'asan'):
        plan = []
        for (fn, grow, split, nk, lf, it) in dumps:
            ck.rng.shuffle(grow)
            ck.rng.shuffle(split)
            b = (700 if flavour == 'plain' else 250) if quick else (len(grow) if flavour == 'plain' else len(grow) // 3)
            sel = sorted(set(split[:b // 2] + grow[:b // 2]))
            fams = (['II', 'OO', 'LF', 'fs'] if quick else ['II', 'OO', 'LF', 'fs', 'OI', 'IO', 'QQ', 'UF', 'LL'])
            parts = 2
            for fam in fams:
                for is_set in (True, False):
                    for p in range(parts):
                        plan.append(dict(fam=fam, is_set=is_set, leaf=lf, internal=it, nkeys=nk, dump=fn, indices=sel[p::parts],
                                         partb=True, partb_every=3 if quick else 1, partb_cap=10 if quick else 40))
        results = jobs.run_jobs('harness.workers.oom_worker', plan, flavour=flavour)
        for job, res, err in results:
            ident = dict(fam=job['fam'], is_set=job['is_set'], sizes=[job['leaf'], job['internal']], build=flavour)
            if err:
                ck.violation('oom worker died on the %s build %s: %s' % (flavour, ident, err[-1500:]), dict(ident, kind='crash', err=err[-3000:]))
                continue
            for k, v in res['counts'].items():
                ck.bump('%s_%s' % (flavour, k), v)
            ck.add_traces(res['counts']['faults'] + res['counts']['partb_faults'])
            for mm in res['mismatches']:
                ck.violation('%s %s %s build sizes=%s: %s, failing allocation %s of %s: %s' % (
                    mm['fam'], 'set' if mm['is_set'] else 'map', flavour, mm['sizes'], mm.get('op', json.dumps(mm['act'])),
                    mm.get('fail_at'), mm.get('allocations'), mm['kind']), dict(mm, build=flavour))
        if plan:
            ck.sample(dict(kind='oom job', build=flavour, job={k: v for k, v in plan[0].items() if k != 'indices'}, transitions=len(plan[0]['indices'])))
    faults = ck.notes.get('plain_faults', 0) + ck.notes.get('plain_partb_faults', 0)
    ck.cov['evaluations'] = faults + ck.notes.get('asan_faults', 0) + ck.notes.get('asan_partb_faults', 0)
    ck.cov['distinct_nontrivial'] = faults
    ck.cov['rule'] = ('one evaluation = one call repeated with one allocation index failing (BTree_Malloc/BTree_Realloc countdown hook); '
                      'distinct = (family, kind, source state, call, allocation index) on the plain build; the sanitizer build repeats a subset')
    ck.assumptions += ['allocations are those made through BTree_Malloc/BTree_Realloc (node objects come from the Python allocator, the radix work buffer from plain malloc)',
                       'hook compiled in with -DBTREES_VERIF=1 (guard BTREES_VERIF)']
    ck.finish(exhaustive=not quick)


if __name__ == '__main__':
    main()
