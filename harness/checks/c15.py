"""C15 - mutating while iterating never crashes or damages the container."""
import json
from harness import common, tlc, jobs, embed


def icfg(nk, nv, lf, it, maxuse, minopen, maxidx, spec='ISpec', invs=('OutcomeOK', 'InBounds', 'ContainerOK'), view=True):
    return """SPECIFICATION %s
CONSTANTS
  Keys = {%s}
  Vals = {%s}
  MaxLeaf = %d
  MaxInt = %d
  Dev = {}
  MaxUse = %d
  MinOpen = %d
  MaxIdx = %d
%s%s""" % (spec, ','.join(map(str, range(1, nk + 1))), ','.join(map(str, range(1, nv + 1))), lf, it, maxuse, minopen, maxidx,
           'VIEW IView\n' if view else '', ''.join('INVARIANT %s\n' % i for i in invs))


def main():
    ck = common.Check('C15')
    quick = ck.tier == 'quick'
    # 1. TLC, exhaustive: every shape, every way of opening an iterator or a lazy sequence over a range, every
    #    interleaving of up to MaxUse cursor steps (next, indexing incl. negative and out of range, len) with
    #    inserts, deletes, pop-smallest and clear
    for (nk, lf, it, mu, mi) in ([(4, 2, 2, 4, 4), (3, 2, 2, 5, 3)] if quick else [(5, 2, 2, 4, 5), (4, 2, 2, 5, 4), (4, 3, 2, 5, 4), (5, 2, 3, 3, 5)]):
        r = tlc.run('Iter', icfg(nk, 1, lf, it, mu, 0, mi), timeout=3400)
        ck.add_tlc(r.summary(), 'Iter keys=%d sizes=(%d,%d) steps<=%d' % (nk, lf, it, mu))
        common.tlc_verdict(ck, r, ck.notes['tlc_runs'][-1]['name'])
    # 2. spec -> code: behaviours written by TLC's simulator (deep trees, long interleavings) replayed on the real
    #    containers; C outcomes must be exactly the specification's; then on the sanitizer build
    sims = []
    for (nk, lf, it, num, depth, mu, mo) in ([(8, 2, 2, 500, 40, 14, 5), (8, 3, 2, 300, 40, 12, 6), (6, 4, 2, 400, 30, 12, 4), (16, 2, 2, 200, 70, 16, 10)] if quick else
                                             [(8, 2, 2, 4000, 44, 16, 5), (8, 3, 2, 2500, 44, 14, 6), (6, 4, 2, 3000, 34, 14, 4), (8, 2, 3, 2500, 44, 14, 6), (10, 2, 2, 2500, 50, 16, 7), (16, 2, 2, 3000, 90, 18, 11)]):
        c = icfg(nk, 2, lf, it, mu, mo, 4, spec='SSpec', invs=('OutcomeOK', 'InBounds'), view=False)
        fn, behs, summ = tlc.simulate_behaviours('IterSim', c, num, depth, seed=ck.seed + 1)
        ck.add_tlc(summ, 'IterSim simulation keys=%d sizes=(%d,%d): %d behaviours' % (nk, lf, it, len(behs)))
        sims.append((fn, len(behs), lf, it))
    fams = ['II', 'OO', 'LF', 'fs'] if quick else embed.FAMILIES
    for flavour in ('plain', 'asan'):
        plan = []
        for (fn, n, lf, it) in sims:
            for fam in (fams if flavour == 'plain' else fams[:2] if quick else fams[:8]):
                for impl in (('c', 'py') if flavour == 'plain' else ('c',)):
                    for is_set in (True, False):
                        nparts = 2 if impl == 'c' else 4
                        for p in range(nparts if not quick else (2 if impl == 'py' and not is_set else 1)):
                            plan.append(dict(fam=fam, impl=impl, is_set=is_set, leaf=lf, internal=it, dump=fn,
                                             part=(p + len(plan)) % nparts, nparts=nparts, pure=(impl == 'py')))
        if flavour == 'plain':
            # the same behaviours on a *stored* tree (committed when the cursor is opened and at the end): the contents a fresh
            # reader sees afterwards are the contents implied by the mutations
            for (fn, n, lf, it) in sims:
                for fam in fams[:2]:
                    for impl in ('c', 'py'):
                        for is_set in (True, False):
                            plan.append(dict(fam=fam, impl=impl, is_set=is_set, leaf=lf, internal=it, dump=fn, persist=True,
                                             part=len(plan) % 2, nparts=2 if quick else 1, pure=(impl == 'py')))
        results = jobs.run_jobs('harness.workers.iter_worker', plan, flavour=flavour, pure=True)
        outcomes = {}
        for job, res, err in results:
            ident = dict(fam=job['fam'], impl=job['impl'], is_set=job['is_set'], sizes=[job['leaf'], job['internal']], build=flavour)
            if err:
                ck.violation('iterator worker died on the %s build %s: %s' % (flavour, ident, err[-1500:]), dict(ident, kind='crash', err=err[-3000:]))
                continue
            for k in ('behaviours', 'steps', 'cursor_steps'):
                ck.bump('%s_%s' % (flavour, k), res['counts'][k])
            ck.bump('%s_persist_checked' % flavour, res['counts'].get('persist_checked', 0))
            for k, v in res['counts']['outcomes'].items():
                outcomes[k] = outcomes.get(k, 0) + v
            ck.add_traces(res['counts']['behaviours'])
            for mm in res['mismatches']:
                ck.violation('%s %s %s sizes=%s %s build: %s after %s' % (
                    mm['fam'], mm['impl'], 'set' if mm['is_set'] else 'map', mm['sizes'], flavour, mm['kind'], mm['history'][-4:]),
                    dict(mm, build=flavour))
        ck.note('%s_outcomes' % flavour, outcomes)
        for need in ('entry', 'stop', 'RuntimeError', 'IndexError'):
            if flavour == 'plain' and not outcomes.get(need) and not ck.violations:
                common.machinery_failure('no replayed cursor step ended with %s' % need)
        if plan:
            ck.sample(dict(kind='iterator job', build=flavour, job={k: v for k, v in plan[0].items() if k != 'dump'}))
    ck.assumptions += ['outcomes are predicted exactly for both implementations: C by the BTreeIter_next / BTreeItems_seek transcriptions (cur/out), '
                       'Python by the transcription of _TreeItems (its generator, the per-leaf generator expressions over the live lists, the cached '
                       'length and the cached last entry: pcur/pout)',
                       'iter() of a TreeSet range view goes through the generic sequence iterator']
    ck.finish(exhaustive=False)


if __name__ == '__main__':
    main()
