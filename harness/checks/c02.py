"""C02 - range searches and lazy key/value/item sequences are exact."""
import json
from harness import common, tlc, shapes, embed, jobs, judge, replayplan as RP

INVS = (('RangeRefinesC', 'RangeRefinesPy', 'MinMaxOK'), ('ItemsOK',), ('SlicesOK',))
DEVS = (('RangeRefinesC', 'C_RangeLenLt2'), ('RangeRefinesC', 'C_RangeCmpBothOnly'),
        ('RangeRefinesPy', 'Py_ExcludePerBucket'), ('MinMaxOK', 'Py_MinKeyGap'))


def wellformed(r):
    def ints(x):
        if isinstance(x, list):
            return all(ints(y) for y in x)
        return isinstance(x, int) and not isinstance(x, bool)
    for k in ('got', 'idx', 'cs', 'vs'):
        if k in r and not ints(r[k]):
            return False
    return True


def inexact(p):
    """does the tree value have a separator that is smaller than the smallest key below it?"""
    def mn(q):
        return q['ks'][0] if q['t'] == 'L' else mn(q['kids'][0])
    if p['t'] == 'L' or not p['kids']:
        return False
    return any(s_ != mn(c) for s_, c in zip(p['seps'], p['kids'][1:])) or any(inexact(c) for c in p['kids'])


def main():
    ck = common.Check('C02')
    quick = ck.tier == 'quick'
    # 1. TLC: the transcribed range machinery (C and Python flavours) refines the promise on every
    #    reachable shape; keys start at 2 so that bound 1 lies below everything
    insts = [(5, 2, 2), (4, 3, 2)] if quick else [(6, 2, 2), (6, 3, 2), (5, 2, 3), (6, 3, 3), (7, 2, 2)]
    for (nk, lf, it) in insts:
        for invs in ([INVS[0] + INVS[1] + INVS[2]] if quick else INVS):
            if not quick and nk >= 7 and invs != INVS[0]:
                continue
            r = tlc.run('RangeImpl', shapes.cfg(nk, 1, lf, it, spec='SpecLoose', invariants=invs, firstkey=2), timeout=3400)
            ck.add_tlc(r.summary(), 'RangeImpl %s keys=%d sizes=(%d,%d)' % ('+'.join(invs), nk, lf, it))
            common.tlc_verdict(ck, r, ck.notes['tlc_runs'][-1]['name'])
    # non-vacuity: each named deviation (the behaviour before the corresponding fix) must be refuted
    for inv, dev in DEVS:
        r = tlc.run('RangeImpl', shapes.cfg(5, 1, 2, 2, spec='SpecCore', invariants=(inv,), dev=(dev,), firstkey=2),
                    timeout=600)
        if r.violation != inv:
            common.machinery_failure('deviation %s is not refuted by %s (vacuous invariant?)' % (dev, inv))
        ck.bump('deviations_refuted')
    # 2. conformance: all queries on the real trees in every reachable shape, judged by TLC
    plan = []
    fams = embed.QUICK_FAMILIES if quick else embed.FAMILIES
    dspec = [(5, 1, 2, 2), (4, 2, 3, 2)] if quick else [(6, 1, 2, 2), (5, 2, 2, 2), (5, 2, 3, 2), (6, 1, 2, 3)]
    for (nk, nv, lf, it) in dspec:
        # model keys 1..nk are embedded at ranks 2..nk+1: rank 1 and nk+2 are bounds outside everything
        # (SpecLoose: also trees whose separators are smaller than the smallest key below them - loaded states)
        fn, payloads, summ = shapes.dump_file(nk, nv, lf, it, spec='SpecLoose')
        ck.add_tlc(summ, 'dump keys=%d sizes=(%d,%d)' % (nk, lf, it))
        from harness import graph
        allstates = graph.Graph(payloads).states()
        nstates = len(allstates)
        loose = [i for i, st_ in enumerate(allstates) if inexact(st_)]
        ck.bump('shapes_with_loose_separators', len(loose))
        for fam in fams:
            for impl in ('c', 'py'):
                budget = (100 if impl == 'c' else 40) if quick else (3000 if impl == 'c' else 800)
                sel = list(range(nstates))
                if nstates > budget:
                    # (a third of the sample from the shapes with loose separators)
                    nl = min(len(loose), budget // 3)
                    pick = set(ck.rng.sample(loose, nl))
                    rest = [i for i in sel if i not in pick]
                    sel = sorted(pick | set(ck.rng.sample(rest, budget - nl)))
                for is_set in ([False] if nv > 1 else [True, False]):
                    # ('ext' puts negative numbers, zero and the extremes among keys and bounds; quick tier: for the sets)
                    embs = ['mid'] if fam[0] == 'O' else (['ext' if is_set else 'mid'] if quick else ['mid', 'ext'])
                    for emb in embs:
                        plan.append(dict(dump=fn, fam=fam, impl=impl, is_set=is_set, emb=emb, leaf=lf, internal=it,
                                         bounds=list(range(0, nk + 2)), states=sel, shift=0))
    # stand-alone Buckets and Sets (their own range code: Bucket_rangeSearch / _BucketBase._range) with the same contents
    lplan = []
    for j in plan:
        if (j['fam'], j['impl'], j['is_set'], j['emb']) not in {(x['fam'], x['impl'], x['is_set'], x['emb']) for x in lplan}:
            lplan.append(dict(j, kind='leaf', states=j['states'][:(60 if quick else 600)]))
    plan += lplan
    results = jobs.run_jobs('harness.workers.range_worker', plan)
    allrecs, owners = {}, {}
    for job, res, err in results:
        ident = dict(fam=job['fam'], impl=job['impl'], is_set=job['is_set'], emb=job['emb'], sizes=[job['leaf'], job['internal']],
                     container=job.get('kind', 'tree'))
        if err:
            ck.violation('range worker died %s: %s' % (ident, err), dict(ident, kind='crash', err=err))
            continue
        ck.bump('real_calls', res['counts']['calls'])
        ck.bump('real_states_visited', res['counts']['states'])
        ck.bump('byvalue_calls', res['counts'].get('byvalue', 0))
        for r in res['records']:
            k = json.dumps(r, sort_keys=True)
            if not wellformed(r):
                ck.violation('%s %s: %s query %s answered %s on contents %s' % (
                    ident['fam'], ident['impl'], r['kind'], r.get('q', r.get('b')), r.get('got', r.get('idx')), r['cs']),
                    dict(ident, kind='malformed-result', rec=r, rkind=r['kind'], got=str(r.get('got')), empty=(r['cs'] == []), bound=r.get('b')))
                continue
            if k not in allrecs:
                allrecs[k] = r
                owners[k] = ident
    keys = list(allrecs)
    recs = [allrecs[k] for k in keys]
    bad, summ = judge.judge('JudgeRange', recs)
    ck.add_tlc(dict(generated=summ['generated'], distinct=summ['distinct'], wall_s=round(summ['wall_s'], 1)),
               'JudgeRange on %d distinct recorded results' % len(recs))
    ck.add_traces(len(recs))
    if recs:
        ck.sample(dict(kind='recorded result', rec=recs[0]))
        ck.sample(dict(kind='recorded result', rec=recs[len(recs) // 2]))
    for b in bad:
        r = recs[b]
        ident = owners[keys[b]]
        ck.violation('%s %s set=%s: %s with %s on contents %s returned %s, which the specification rejects' % (
            ident['fam'], ident['impl'], ident['is_set'], r['kind'], r.get('q', r.get('b')), r['cs'],
            r.get('got', r.get('idx'))), dict(ident, kind='range-rejected', op=r['kind'], rec=r))
    ck.assumptions += ['bounds are of the key type', 'model keys embedded order-preservingly; rank 1 and N+2 are outside bounds']
    ck.finish(exhaustive=not quick)


if __name__ == '__main__':
    main()
