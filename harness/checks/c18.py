"""C18 - the diagnostic checkers accept every valid tree and detect every corruption."""
import json
from harness import common, tlc, shapes, embed, jobs, judge, graph, replayplan as RP

INVS = ('PristineAccepted', 'DetectedC', 'DetectedPy', 'SameVerdict', 'NoFalseAlarm', 'SomeBroken')


def cfg(nk, lf, it, spec='SpecCore', invariants=INVS, cdev=(), nvals=1):
    c = shapes.cfg(nk, nvals, lf, it, spec=spec, invariants=invariants, firstkey=2)
    return c.replace('  Dev = {}', '  Dev = {}\n  CDev = {%s}' % ','.join('"%s"' % d for d in cdev))


def main():
    ck = common.Check('C18')
    quick = ck.tier == 'quick'
    # 1. TLC: on every reachable shape the transcribed checkers accept the tree and reject every
    #    damaging single corruption (Check!Mut at every position)
    insts = [(5, 2, 2), (5, 3, 2), (5, 2, 3)] if quick else [(6, 2, 2), (7, 2, 2), (6, 3, 2), (6, 2, 3), (6, 3, 3), (7, 4, 2)]
    for (nk, lf, it) in insts:
        r = tlc.run('CheckMC', cfg(nk, lf, it), timeout=3400)
        ck.add_tlc(r.summary(), 'CheckMC keys=%d sizes=(%d,%d)' % (nk, lf, it))
        common.tlc_verdict(ck, r, ck.notes['tlc_runs'][-1]['name'])
    #    non-vacuity: the two historical / seeded blind spots must be refuted
    for dev, inv in (('CNoEmptyInteriorCheck', 'DetectedC'), ('WalkEdgeBoundsNotInherited', 'DetectedC')):
        r = tlc.run('CheckMC', cfg(6 if dev.startswith('Walk') else 5, 2, 2, cdev=(dev,), invariants=(inv,)), timeout=3000)
        ck.add_tlc(r.summary(), 'CheckMC deviation %s (must be refuted)' % dev)
        if r.violation != inv:
            ck.violation('deviation %s is not refuted by TLC: the corruption universe is too weak' % dev,
                         dict(kind='vacuity', dev=dev, out=r.out[-1500:]))
    # 2. spec -> code: the corruptions TLC enumerated for every shape of a small instance
    explicit = []
    for (nk, lf, it) in ([(3, 2, 2)] if quick else [(4, 2, 2), (4, 3, 2)]):
        c = cfg(nk, lf, it, invariants=('DumpMuts',))
        payloads, summ = tlc.cached_payloads('CheckMC', c, 'CK', workers=1, timeout=3000)
        ck.add_tlc(summ, 'corruptions of every shape, keys=%d sizes=(%d,%d)' % (nk, lf, it))
        explicit.append((nk, lf, it, payloads))
    # 3. shapes from the exhaustive dumps and from deep simulations; corruptions generated at every position
    dumps = []
    for (nk, lf, it, per) in ([(5, 2, 2, 40), (5, 3, 2, 40)] if quick else [(6, 2, 2, 0), (6, 3, 2, 0), (6, 2, 3, 0), (7, 2, 2, 60)]):
        fn, payloads, summ = shapes.dump_file(nk, 1, lf, it, spec='SpecCore')
        ck.add_tlc(summ, 'shapes keys=%d sizes=(%d,%d)' % (nk, lf, it))
        dumps.append((fn, payloads, nk, lf, it, per))
    for (nk, lf, it, num, depth, per) in ([(12, 2, 2, 30, 60, 50)] if quick else [(14, 2, 2, 200, 80, 80), (14, 2, 3, 100, 80, 80)]):
        fn, payloads, summ = RP.sim_dump(ck, nk, 1, lf, it, num, depth, spec='SpecEff')
        ck.add_tlc(summ, 'simulated shapes keys=%d sizes=(%d,%d)' % (nk, lf, it))
        dumps.append((fn, payloads, nk, lf, it, per))
    fams = (['OO', 'II', 'LQ', 'fs'] if quick else embed.FAMILIES)
    plan = []
    for fam in fams:
        for impl in ('c', 'py'):
            for (nk, lf, it, payloads) in explicit:
                plan.append(dict(fam=fam, impl=impl, is_set=(len(plan) % 2 == 1), leaf=lf, internal=it, nkeys=nk,
                                 explicit=payloads))
            for (fn, payloads, nk, lf, it, per) in dumps:
                nstates = len(graph.Graph(payloads).states())
                budget = (25 if impl == 'c' else 12) if quick else (600 if impl == 'c' else 200)
                idx = list(range(nstates))
                ck.rng.shuffle(idx)
                # deep shapes first: sort the sample by nothing, but always include the largest states
                idx = sorted(idx[:budget])
                plan.append(dict(fam=fam, impl=impl, is_set=(len(plan) % 2 == 1), leaf=lf, internal=it, nkeys=nk,
                                 dump=fn, indices=idx, per_state=per, seed=ck.seed + len(plan)))
    # object keys with None as the smallest stored key (the 'ext' embedding, no shift): the same corruptions
    for impl in ('c', 'py'):
        for (fn, payloads, nk, lf, it, per) in dumps[:2]:
            nstates = len(graph.Graph(payloads).states())
            idx = list(range(nstates))
            ck.rng.shuffle(idx)
            for is_set in (True, False):
                plan.append(dict(fam='OO', impl=impl, is_set=is_set, leaf=lf, internal=it, nkeys=nk, emb='ext', shift=0,
                                 dump=fn, indices=sorted(idx[:(20 if quick else 400)]), per_state=per, seed=ck.seed + len(plan)))
    results = jobs.run_jobs('harness.workers.check_worker', plan)
    uniq, owner = {}, {}
    labels = {}
    for job, res, err in results:
        ident = dict(fam=job['fam'], impl=job['impl'], is_set=job['is_set'], sizes=[job['leaf'], job['internal']])
        if err:
            ck.violation('check worker died %s: %s' % (ident, err), dict(ident, kind='crash', err=err))
            continue
        for p in res['problems']:
            ck.violation('%s: tree built through the API differs from the model shape' % (ident,), dict(ident, **p))
        for k, v in res['counts']['labels'].items():
            labels[k] = labels.get(k, 0) + v
        ck.bump('unconstructible', res['counts']['unconstructible'])
        ck.bump('stored_pristine_observations', res['counts'].get('stored', 0))
        for r in res['recs']:
            lab = r.pop('label')
            if r['pv'].startswith('other') or r['wv'].startswith('other'):
                ck.violation('%s %s: a checker raised something else than AssertionError on a %s tree: _check %s, check() %s' % (
                    ident['fam'], ident['impl'], lab, r['pv'], r['wv']), dict(ident, kind='checker-exception', label=lab, rec=r))
                continue
            k = json.dumps(r, sort_keys=True)
            if k not in uniq:
                uniq[k] = r
                owner[k] = dict(ident, label=lab)
            ck.bump('observations')
    keys = list(uniq)
    recs = [uniq[k] for k in keys]
    bad, summ = judge.judge('JudgeCheck', recs, constants={'CDev': '{}'})
    ck.add_tlc(dict(generated=summ['generated'], distinct=summ['distinct'], wall_s=round(summ['wall_s'], 1)),
               'JudgeCheck on %d distinct (tree, verdicts) records' % len(recs))
    ck.add_traces(len(recs))
    ck.note('corruption_classes_observed', labels)
    if recs:
        ck.sample(dict(kind='judged record', rec=recs[len(recs) // 2], owner=owner[keys[len(recs) // 2]]))
    details = summ.get('details', {})
    for b in bad:
        r, o = recs[b], owner[keys[b]]
        ck.violation('%s %s (%s corruption): _check() %s, check() %s; the specification expects %s' % (
            o['fam'], o['impl'], o['label'], r['pv'], r['wv'], details.get(b, {}).get('expect')),
            dict(o, kind='checker-verdict', rec=r, expect=details.get(b, {}).get('expect')))
    if not quick or True:
        missing = [l for l in ('key', 'swap', 'emptyleaf', 'next', 'sep', 'first', 'wrap', 'emptychild', 'pristine', 'tlc')
                   if not labels.get(l)]
        if missing and not ck.violations:
            common.machinery_failure('corruption classes never built: %s' % missing)
    ck.assumptions += ['corruptions are applied through __setstate__ on fresh objects; states __setstate__ refuses are not containers',
                       'sizes set on the classes (check.check() only knows exact types)']
    ck.finish(exhaustive=not quick)


if __name__ == '__main__':
    main()
