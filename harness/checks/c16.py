"""C16 - the C extension accounts for every reference and stays inside its memory."""
import json
from harness import common, tlc, shapes, jobs


def main():
    ck = common.Check('C16')
    quick = ck.tier == 'quick'
    # 1. TLC: the ledger of every reachable state -- one leaf slot per stored key, none for an absent one,
    #    one value slot per entry -- and the dump of every transition with the ledger of its target state
    dumps = []
    for (nk, nv, lf, it) in ([(5, 2, 2, 2), (5, 1, 3, 2)] if quick else [(6, 1, 2, 2), (5, 2, 2, 2), (6, 1, 3, 2), (5, 2, 2, 3), (5, 2, 3, 3)]):
        r = tlc.run('Ledger', shapes.cfg(nk, nv, lf, it, invariants=('LedgerOK', 'ValLedgerOK', 'Sound')), timeout=3400)
        ck.add_tlc(r.summary(), 'Ledger keys=%d vals=%d sizes=(%d,%d)' % (nk, nv, lf, it))
        common.tlc_verdict(ck, r, ck.notes['tlc_runs'][-1]['name'])
        fn, payloads, summ = shapes.dump_file(nk, nv, lf, it, module='Ledger', dumpop='DumpL')
        dumps.append((fn, len(payloads), nk, lf, it))
    # 2. spec -> code: reference counts of the real key / value objects after every replayed transition and around
    #    sequences, iterators, set algebra, merges, pickling, eviction, clear, destruction; then the same
    #    behaviours on the AddressSanitizer + UBSan build (any report kills the worker)
    for flavour in ('plain', 'asan'):
        plan = []
        for (fn, n, nk, lf, it) in dumps:
            idx = list(range(n))
            ck.rng.shuffle(idx)
            budget = (4000 if flavour == 'plain' else 1200) if quick else (n if flavour == 'plain' else n // 2)
            idx = idx[:budget]
            parts = 8
            for is_set in (True, False):
                for p in range(parts):
                    plan.append(dict(is_set=is_set, leaf=lf, internal=it, nkeys=nk, dump=fn, indices=sorted(idx[p::parts]),
                                     scenarios=True, scenario_every=11 if quick else 2, evict=(p % 2 == 0),
                                     merge=(p < 2), merge_select=[2 if is_set else (40 if quick else 4), p]))
        results = jobs.run_jobs('harness.workers.ledger_worker', plan, flavour=flavour)
        for job, res, err in results:
            ident = dict(is_set=job['is_set'], sizes=[job['leaf'], job['internal']], build=flavour)
            if err:
                ck.violation('ledger worker died on the %s build %s: %s' % (flavour, ident, err[-1500:]), dict(ident, kind='crash', err=err[-3000:]))
                continue
            for k, v in res['counts'].items():
                ck.bump('%s_%s' % (flavour, k), v)
            ck.add_traces(res['counts']['replayed'] + res['counts']['scenarios'] + res['counts']['merges'])
            for mm in res['mismatches']:
                ck.violation('OO%s %s build: %s after %s: reference count - baseline vs. owned slots %s' % (
                    'TreeSet' if mm['is_set'] else 'BTree', flavour, mm['kind'], json.dumps(mm.get('act')), mm.get('delta_real_model')),
                    dict(mm, build=flavour))
        if plan:
            ck.sample(dict(kind='ledger job', build=flavour, job={k: v for k, v in plan[0].items() if k != 'indices'}, transitions=len(plan[0]['indices'])))
    # 3. references around rejected loads (a state that fails part-way, onto a container that holds entries; object-keyed,
    #    object-valued and mixed families) and cyclic garbage through stored objects (every kind, first / middle / last leaf)
    for flavour in ('plain', 'asan'):
        mplan = [dict(fam=f) for f in (['OO', 'OI', 'IO', 'LO', 'OL', 'fs'] if flavour == 'plain' else ['OO', 'OI', 'IO', 'fs'])]
        for job, res, err in jobs.run_jobs('harness.workers.ledger_misc_worker', mplan, flavour=flavour):
            ident = dict(fam=job['fam'], build=flavour)
            if err:
                ck.violation('ledger worker (rejected loads, cycles) died on the %s build %s: %s' % (flavour, ident, err[-1500:]), dict(ident, kind='crash', err=err[-3000:]))
                continue
            for k, v in res['counts'].items():
                ck.bump('%s_%s' % (flavour, k), v)
            ck.add_traces(res['counts']['rejected_loads'] + res['counts']['cycles'])
            for mm in res['mismatches']:
                ck.violation('%s %s build: %s %s' % (job['fam'], flavour, mm['kind'], json.dumps({k: v for k, v in mm.items() if k not in ('kind',)})[:300]), dict(mm, build=flavour))
    # 4. cursors over trees that are mutated meanwhile (behaviours of Iter.tla, as in C15) on the sanitizer build:
    #    a cursor holds counted references to leaves that may be emptied and unlinked under it
    from harness.checks.c15 import icfg
    iplan = []
    for (nk, lf, it, num, depth, mu, mo) in ([(8, 2, 2, 500, 40, 14, 5), (6, 4, 2, 400, 30, 12, 4)] if quick else
                                             [(8, 2, 2, 4000, 44, 16, 5), (6, 4, 2, 3000, 34, 14, 4), (16, 2, 2, 3000, 90, 18, 11)]):
        cfg_ = icfg(nk, 2, lf, it, mu, mo, 4, spec='SSpec', invs=('OutcomeOK', 'InBounds'), view=False)
        fn, behs, summ = tlc.simulate_behaviours('IterSim', cfg_, num, depth, seed=ck.seed + 1)
        ck.add_tlc(summ, 'IterSim simulation keys=%d sizes=(%d,%d): %d behaviours (sanitizer build)' % (nk, lf, it, len(behs)))
        for fam in ('OO', 'IO'):
            for is_set in ((True, False) if fam == 'OO' else (False,)):
                iplan.append(dict(fam=fam, impl='c', is_set=is_set, leaf=lf, internal=it, dump=fn, part=0, nparts=1 if not quick else 2))
    for job, res, err in jobs.run_jobs('harness.workers.iter_worker', iplan, flavour='asan'):
        ident = dict(fam=job['fam'], is_set=job['is_set'], sizes=[job['leaf'], job['internal']], build='asan')
        if err:
            ck.violation('iterator worker died on the sanitizer build %s: %s' % (ident, err[-1500:]), dict(ident, kind='crash', err=err[-3000:]))
            continue
        ck.bump('asan_iterator_behaviours', res['counts']['behaviours'])
        ck.add_traces(res['counts']['behaviours'])
        for mm in res['mismatches']:
            ck.violation('%s %s sanitizer build: cursor %s after %s' % (mm['fam'], 'set' if mm['is_set'] else 'map', mm['kind'], mm['history'][-4:]), dict(mm, build='asan'))
    ck.assumptions += ['reference counts are read with sys.getrefcount on one key object per rank and one value object per rank, '
                       'with the collector disabled and no temporaries alive',
                       'memory errors inside one C statement are only visible to the sanitizer build (clang 14 ASan+UBSan), '
                       'which replays the same specification-generated behaviours']
    ck.finish(exhaustive=not quick)


if __name__ == '__main__':
    main()
