"""C03 - a container used only through its API is never internally damaged."""
import json
from harness import common, tlc, shapes, embed, replayplan as RP, tracecheck

INVS = ('ChainOK', 'SortedOK', 'NoEmpty', 'SizeOK', 'KindsOK', 'FirstOK', 'RangeOK')


def main():
    ck = common.Check('C03')
    quick = ck.tier == 'quick'
    # 1. TLC: Sound is an invariant of every reachable state (core generators: set / delete / clear ...)
    insts = [(6, 1, 2, 2, 'Spec'), (6, 1, 3, 2, 'SpecCore'), (6, 1, 2, 3, 'SpecCore')] if quick else \
            [(7, 1, 2, 2, 'SpecCore'), (8, 1, 3, 2, 'SpecCore'), (7, 1, 2, 3, 'SpecCore'), (7, 1, 3, 3, 'SpecCore'),
             (6, 1, 2, 2, 'Spec'), (5, 2, 2, 2, 'Spec'), (8, 1, 4, 2, 'SpecCore')]
    for (nk, nv, lf, it, spec) in insts:
        r = tlc.run('BTreeImpl', shapes.cfg(nk, nv, lf, it, spec=spec, invariants=INVS), timeout=3000)
        ck.add_tlc(r.summary(), '%s keys=%d sizes=(%d,%d)' % (spec, nk, lf, it))
        common.tlc_verdict(ck, r, ck.notes['tlc_runs'][-1]['name'])
    # 2. spec -> code: the real structure equals the (sound) model structure after every replayed
    #    transition; both checkers accept
    dumps = []
    for (nk, nv, lf, it, sets) in ([(5, 1, 2, 2, [True, False]), (5, 1, 3, 2, [True])] if quick else
                                   [(6, 1, 2, 2, [True, False]), (6, 1, 3, 2, [True, False]), (6, 1, 2, 3, [True]),
                                    (6, 1, 3, 3, [False])]):
        fn, payloads, summ = shapes.dump_file(nk, nv, lf, it, spec='SpecCore')
        ck.add_tlc(summ, 'dump keys=%d sizes=(%d,%d)' % (nk, lf, it))
        dumps.append((fn, payloads, nk, nv, lf, it, sets))
    for (nk, nv, lf, it, num, depth, sets) in ([(16, 1, 2, 2, 40, 70, [True, False])] if quick else
                                               [(16, 1, 2, 2, 400, 90, [True, False]), (16, 1, 3, 2, 300, 90, [True]),
                                                (16, 1, 2, 3, 300, 90, [False]), (16, 1, 3, 3, 200, 90, [True])]):
        fn, payloads, summ = RP.sim_dump(ck, nk, nv, lf, it, num, depth, spec='SpecEff')
        ck.add_tlc(summ, 'simulation keys=%d sizes=(%d,%d) num=%d depth=%d' % (nk, lf, it, num, depth))
        dumps.append((fn, payloads, nk, nv, lf, it, sets))
    fams = embed.QUICK_FAMILIES if quick else embed.FAMILIES
    plan = RP.plan_jobs(ck, dumps, fams, ('c', 'py'), ('mid',) if quick else ('mid', 'ext'),
                        1500 if quick else 30000, 500 if quick else 6000, ['checkers', 'check_from'])
    if quick:
        # the extremes of the key domain as well - for object keys that includes None, the smallest key of all
        plan += RP.plan_jobs(ck, dumps, ['OO', 'OI', 'LQ'], ('c', 'py'), ('ext',), 500, 200, ['checkers', 'check_from'])
    RP.run_plan(ck, plan)
    # 3. code -> spec: structures recorded along random histories (small sizes, sizes set on a
    #    subclass-free class, default sizes with many keys) judged by TLC: TreeVal!TSound
    hplan = []
    for fam in fams:
        for impl in ('c', 'py'):
            for kind in ('BTree', 'TreeSet'):
                for (lf, it, nk) in ((2, 2, 16), (3, 2, 16), (2, 3, 16), (4, 4, 16)):
                    hplan.append(dict(fam=fam, impl=impl, kind=kind, emb='ext' if len(hplan) % 3 == 0 else 'mid', leaf=lf, internal=it, nkeys=nk,
                                      ntraces=3 if quick else 30, length=80 if quick else 300,
                                      seed=ck.seed * 1000 + len(hplan), structure=True))
    # node sizes set on a subclass before first use
    for fam in (['OO', 'II'] if quick else fams):
        for impl in ('c', 'py'):
            for kind in ('BTree', 'TreeSet'):
                for (lf, it) in ((2, 2), (3, 4)):
                    hplan.append(dict(fam=fam, impl=impl, kind=kind, emb='mid', leaf=lf, internal=it, nkeys=16, subclass=True,
                                      ntraces=3 if quick else 20, length=80 if quick else 300,
                                      seed=ck.seed * 1000 + 500 + len(hplan), structure=True))
    tracecheck.run_histories(ck, hplan)
    # 4. histories under a database: the tree lives in the stand-in data manager, is committed and evicted (whole cache
    #    or single nodes) between the calls, growth phases with commit + sweep pairs - the structure after every call
    #    must be the one Persist predicts (TraceEvict), which is sound for the design; damage explained by the recorded
    #    inline-leaf finding D18 is attributed by the specification
    from harness.checks.c05 import validate_evict
    from harness import jobs
    eplan = []
    for fam in (['II', 'OO'] if quick else ['II', 'OO', 'LF', 'fs', 'OI', 'QQ']):
        for is_set in (True, False):
            for (lf, it) in ((2, 2), (2, 3), (3, 2)):
                for impl in ('c', 'py'):
                    eplan.append(dict(fam=fam, impl=impl, is_set=is_set, leaf=lf, internal=it, nkeys=15, grow=True,
                                      ntraces=(10 if impl == 'c' else 6) if quick else 120, length=50 if quick else 90,
                                      pure=(impl == 'py'), pcut_abort=0.4,
                                      seed=ck.seed * 100000 + 3000 + len(eplan), emb='mid'))
    validate_evict(ck, jobs.run_jobs('harness.workers.evict_worker', eplan, pure=True))
    ck.assumptions += ['node sizes >= 2, set on the classes before first use',
                       'the database histories use the stand-in data manager (harness/minijar.py)',
                       'model keys embedded order-preservingly (harness/embed.py)']
    ck.finish(exhaustive=not quick)


if __name__ == '__main__':
    main()
