"""C04 - every change reaches the database: commit + reload reproduces the contents."""
import json
from harness import common, tlc, embed, jobs, judge

CODE_DEV = ('EmbeddedNonRootLeaf', 'GarbageKeepsNext')      # what the code does (recorded finding D18)
EVKEYS = ('op', 'k', 'v', 'res', 'regs', 'loaded', 'litems', 'nwritten', 'proj')


def pcfg(nk, nv, lf, it, mc, mo, dev=(), impl='c', same=False, is_set=None, invs=('ReloadOK', 'AbortOK', 'WriterOK', 'RefsOK', 'SameAsImpl')):
    return """SPECIFICATION PSpec
CONSTANTS
  Keys = {%s}
  Vals = {%s}
  MaxLeaf = %d
  MaxInt = %d
  Dev = {%s}
  PImpl = "%s"
  SameValReg = %s
  IsSet = %s
  MaxCommits = %d
  MaxOps = %d
VIEW PView
%s""" % (','.join(map(str, range(1, nk + 1))), ','.join(map(str, range(1, nv + 1))), lf, it,
         ','.join('"%s"' % d for d in dev), impl, 'TRUE' if same else 'FALSE',
         'TRUE' if (is_set if is_set is not None else nv == 1) else 'FALSE', mc, mo,
         ''.join('INVARIANT %s\n' % i for i in invs))


def trace_constants(lf, it, impl, same, is_set):
    return {'Keys': '{' + ','.join(map(str, range(1, 17))) + '}', 'Vals': '{1,2,3}', 'MaxLeaf': str(lf), 'MaxInt': str(it),
            'Dev': '{' + ','.join('"%s"' % d for d in CODE_DEV) + '}', 'PImpl': '"%s"' % impl,
            'SameValReg': 'TRUE' if same else 'FALSE', 'IsSet': 'TRUE' if is_set else 'FALSE', 'MaxCommits': '99', 'MaxOps': '99'}


def same_val_registers(fam, impl, is_set):
    if is_set:
        return False
    return impl == 'py' or fam[1] in 'Os'      # VALUE_SAME exists for the scalar value types of the C code only


def validate(ck, results, label):
    """group the recorded histories by model configuration, let TLC judge them, apply the property"""
    groups = {}
    for job, res, err in results:
        ident = dict(fam=job['fam'], impl=job['impl'], is_set=job['is_set'], sizes=[job['leaf'], job['internal']], seed=job['seed'])
        if err:
            ck.violation('persist worker died %s: %s' % (ident, err), dict(ident, kind='crash', err=err))
            continue
        key = (job['leaf'], job['internal'], job['impl'], same_val_registers(job['fam'], job['impl'], job['is_set']), job['is_set'])
        for tr in res['traces']:
            groups.setdefault(key, []).append((ident, tr))
    for key, items in sorted(groups.items()):
        traces = [[{k: e[k] for k in EVKEYS} for e in tr] for _, tr in items]
        ok_shape = []
        for (ident, tr), t in zip(items, traces):
            if not _renderable(t):
                ck.violation('%s: recorded history outside the model vocabulary' % (ident,), dict(ident, kind='malformed-trace', trace=tr[:6]))
                ok_shape.append(False)
            else:
                ok_shape.append(True)
        sel = [i for i, o in enumerate(ok_shape) if o]
        bad, summ = judge.judge('TracePersist', [traces[i] for i in sel], constants=trace_constants(*key), chunk=400)
        ck.add_tlc(dict(generated=summ['generated'], distinct=summ['distinct'], wall_s=round(summ['wall_s'], 1)),
                   'TracePersist %s sizes=(%s,%s) impl=%s samevalreg=%s set=%s: %d histories' % (label, key[0], key[1], key[2], key[3], key[4], len(sel)))
        ck.add_traces(len(sel))
        ck.bump('trace_events', sum(len(traces[i]) for i in sel))
        for i in sel:
            for e in traces[i]:
                ck.bump('events_' + e['op'])
        rejected = {}
        for (ti, line) in bad:
            rejected[sel[ti]] = (line, summ.get('details', {}).get((ti, line), {}).get('why'))
        for i, (ident, tr) in enumerate(items):
            if not ok_shape[i]:
                continue
            if i in rejected:
                line, why = rejected[i]
                e = tr[line]
                ck.violation('%s %s %s sizes=%s: event %d (%s k=%s) is not a step of Persist: %s differs' % (
                    ident['fam'], ident['impl'], 'set' if ident['is_set'] else 'map', ident['sizes'], line, e['op'], e['k'], why),
                    dict(ident, kind='trace-rejected', why=why, line=line, history=[[x['op'], x['k'], x['v']] for x in tr[:line + 1]],
                         event=e))
                continue
            # the property itself, on what the real code did
            last = None
            for j, e in enumerate(tr):
                broken = None
                if e['op'] == 'commit':
                    if e['loaded'] != e['proj'] or e['litems'] != e['witems'] or e.get('lcheck') != 'ok':
                        broken = 'a fresh reader does not see the writer\'s tree after commit'
                    last = e['proj']
                elif e['op'] == 'abort' and last is not None and e['proj'] != last:
                    broken = 'the writer does not show the last committed tree after abort'
                if broken:
                    # accepted by the specification *with the code's named deviations*: this is the recorded
                    # inline-leaf defect (TLC proves ReloadOK/AbortOK for the specification without them)
                    ck.known_finding('D18')
                    ck.bump('histories_hitting_D18')
                    if 'D18' not in [f['id'] for f in ck.known]:
                        ck.violation('%s: %s (explained by the inline-leaf deviations, but no such finding is listed)' % (ident, broken),
                                     dict(ident, kind='d18-unlisted', history=[[x['op'], x['k'], x['v']] for x in tr[:j + 1]]))
                    break
        if sel:
            ck.sample(dict(kind='validated history (first events)', owner=items[sel[0]][0],
                           events=[[e['op'], e['k'], e['v'], e['regs']] for e in items[sel[0]][1][:8]]))


def _renderable(t):
    def ints(x):
        if isinstance(x, bool):
            return False
        if isinstance(x, (int, str)):
            return not (isinstance(x, str) and ('?' in x))
        if isinstance(x, list):
            return all(ints(y) for y in x)
        if isinstance(x, dict):
            return all(ints(y) for y in x.values())
        return False
    return all(ints(e) for e in t)


def main():
    ck = common.Check('C04')
    quick = ck.tier == 'quick'
    # 1. TLC: the design (no deviation) satisfies ReloadOK / AbortOK on every history of the bounded instance
    insts = [(3, 1, 3, 3), (4, 1, 2, 3), (3, 2, 2, 3)] if quick else [(4, 1, 3, 3), (5, 1, 2, 4), (3, 2, 3, 3), (4, 2, 2, 3), (6, 1, 2, 5)]
    for (nk, nv, mc, mo) in insts:
        r = tlc.run('Persist', pcfg(nk, nv, 2, 2, mc, mo), timeout=3400)
        ck.add_tlc(r.summary(), 'Persist keys=%d vals=%d commits<=%d ops/txn<=%d' % (nk, nv, mc, mo))
        common.tlc_verdict(ck, r, ck.notes['tlc_runs'][-1]['name'])
    for (nk, lf, it, mc, mo) in ([(4, 3, 2, 2, 4)] if quick else [(5, 3, 2, 2, 4), (5, 2, 3, 2, 4)]):
        r = tlc.run('Persist', pcfg(nk, 1, lf, it, mc, mo, impl='py', same=False, is_set=True), timeout=3400)
        ck.add_tlc(r.summary(), 'Persist keys=%d sizes=(%d,%d) python flavour' % (nk, lf, it))
        common.tlc_verdict(ck, r, ck.notes['tlc_runs'][-1]['name'])
    #    each deviation the code has must be refuted (witnesses of the recorded finding D18)
    for dev, cfg in (('GarbageKeepsNext', pcfg(3, 1, 2, 2, 3, 3, dev=('GarbageKeepsNext',), invs=('ReloadOK',))),
                     ('EmbeddedNonRootLeaf', pcfg(6, 1, 2, 2, 2, 6, dev=('EmbeddedNonRootLeaf',), invs=('ReloadOK',)))):
        r = tlc.run('Persist', cfg, timeout=3000)
        ck.add_tlc(r.summary(), 'Persist with deviation %s (must be refuted)' % dev)
        if r.violation != 'ReloadOK':
            ck.violation('deviation %s is not refuted by TLC' % dev, dict(kind='vacuity', dev=dev, out=r.out[-1500:]))
    #    the specification as the code is: the writer itself is never damaged, transcription = BTreeImpl
    r = tlc.run('Persist', pcfg(3 if quick else 4, 1, 2, 2, 3, 3, dev=CODE_DEV, invs=('WriterOK', 'SameAsImpl')), timeout=3400)
    ck.add_tlc(r.summary(), 'Persist with the code\'s deviations: writer intact')
    common.tlc_verdict(ck, r, ck.notes['tlc_runs'][-1]['name'])
    # 2. code -> spec: recorded histories on the real containers under the stand-in data manager
    fams = (['II', 'OO', 'LF', 'fs'] if quick else embed.FAMILIES)
    plan = []
    for fam in fams:
        for impl in ('c', 'py'):
            for is_set in (True, False):
                for (lf, it, nk) in ((2, 2, 8), (3, 2, 10), (2, 3, 12), (4, 4, 16)):
                    if quick and (len(plan) % 2) and (lf, it) != (2, 2):
                        continue
                    plan.append(dict(fam=fam, impl=impl, is_set=is_set, leaf=lf, internal=it, nkeys=nk, nvals=2,
                                     ntraces=(30 if impl == 'c' else 12) if quick else 300, length=36 if quick else 60,
                                     seed=ck.seed * 100000 + len(plan), pure=(impl == 'py'),
                                     emb='ext' if len(plan) % 3 == 0 else 'mid'))
    results = jobs.run_jobs('harness.workers.persist_worker', plan, pure=True)
    validate(ck, results, 'random histories')
    # 3. small scope, exhaustively: every history over 3 keys of a given length
    for (L, extra) in ([(5, False), (4, True)] if quick else [(7, False), (5, True)]):
        # (extra: the alphabet also has insert()/setdefault() of every key and popitem() / pop-smallest)
        plan = []
        for impl in ('c', 'py'):
            for is_set, fam in ((True, 'II'), (False, 'OO')):
                nparts = 4 if quick else 16
                for part in range(nparts):
                    plan.append(dict(fam=fam, impl=impl, is_set=is_set, leaf=2, internal=2, nkeys=3, mode='enumerate', length=L, extra_ops=extra,
                                     part=part, nparts=nparts, seed=0, pure=(impl == 'py')))
        results = jobs.run_jobs('harness.workers.persist_worker', plan, pure=True)
        validate(ck, results, 'all histories of length %d over 3 keys%s' % (L, ' (with insert/setdefault/popitem)' if extra else ''))
    # 4. contents level, whole mutating API, every kind (LeafStore.tla): a container kept as one database record - a
    #    stand-alone Bucket / Set, or a BTree / TreeSet small enough to be stored as one inline leaf (default node
    #    sizes) - driven through the whole API (update, pop, popitem, setdefault, insert, discard, in-place set
    #    operators with every kind of operand, clear, failing calls) and cut into transactions; a fresh reader after
    #    every commit, the writer after every abort.  TLC first: ReaderOK / AbortOK, and the deviation must be refuted.
    lcfg = "SPECIFICATION LSpec\nCONSTANTS\n LKeys = {1,2,3}\n LVals = {1,2}\n LDev = {%s}\nINVARIANT ReaderOK\nINVARIANT AbortOK\n"
    r = tlc.run('LeafStore', lcfg % '', timeout=1200)
    ck.add_tlc(r.summary(), 'LeafStore keys=3 vals=2')
    common.tlc_verdict(ck, r, 'LeafStore')
    r = tlc.run('LeafStore', lcfg % '"SilentOp"', timeout=1200)
    if r.violation != 'ReaderOK':
        common.machinery_failure('LeafStore with a silent change was not refuted')
    from harness import tracecheck
    hplan = []
    for fam in (['II', 'OO', 'LF', 'fs', 'OI'] if quick else embed.FAMILIES):
        for impl in ('c', 'py'):
            for kind in ('Bucket', 'Set', 'BTree', 'TreeSet'):
                if fam == 'fs' and kind in ('Set', 'TreeSet') and False:
                    continue
                hplan.append(dict(fam=fam, impl=impl, kind=kind, emb='ext' if len(hplan) % 3 == 0 else 'mid', nkeys=12,
                                  ntraces=(12 if impl == 'c' else 6) if quick else 120, length=60 if quick else 120,
                                  seed=ck.seed * 1000 + 700 + len(hplan), jar=True, pure=(impl == 'py')))
    # object values that are changed in place and stored again under their key
    for fam in ('OO', 'IO', 'LO'):
        for impl in ('c', 'py'):
            for kind in ('Bucket', 'BTree'):
                hplan.append(dict(fam=fam, impl=impl, kind=kind, emb='mid', nkeys=10, mutvals=True,
                                  ntraces=(10 if impl == 'c' else 5) if quick else 100, length=60 if quick else 120,
                                  seed=ck.seed * 1000 + 800 + len(hplan), jar=True, pure=(impl == 'py')))
    tracecheck.run_leaf_histories(ck, hplan)
    if (not ck.notes.get('leafstore_commits') or not ck.notes.get('leafstore_aborts')) and not ck.violations:
        common.machinery_failure('no commit / abort in the transactional histories')
    ck.assumptions += ['the data manager is a stand-in (harness/minijar.py) that writes in ZODB\'s order: registered objects '
                       'first-come, newly reached objects last-in first-out',
                       'model keys/values embedded per family; node sizes set on the classes']
    ck.finish(exhaustive=False)


if __name__ == '__main__':
    main()
