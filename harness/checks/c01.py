"""C01 - containers behave as a sorted map / sorted set."""
import json, os, sys
from harness import common, tlc, shapes, embed, replayplan as RP, tracecheck

INVS = ('AbsOK', 'ResOK', 'LookupOK', 'Sound')
PROPS = ('ErrUnchanged',)


def main():
    ck = common.Check('C01')
    quick = ck.tier == 'quick'
    # 1. TLC: Layer B refines Layer A on every reachable state of the bounded instances
    insts = [(5, 2, 2, 2), (5, 1, 3, 2)] if quick else \
            [(5, 2, 2, 2), (6, 1, 2, 2), (6, 1, 3, 2), (6, 1, 2, 3), (5, 2, 3, 3), (7, 1, 2, 2)]
    for (nk, nv, lf, it) in insts:
        r = tlc.run('BTreeImpl', shapes.cfg(nk, nv, lf, it, invariants=INVS, props=PROPS), timeout=3000)
        ck.add_tlc(r.summary(), 'BTreeImpl keys=%d vals=%d sizes=(%d,%d)' % (nk, nv, lf, it))
        common.tlc_verdict(ck, r, ck.notes['tlc_runs'][-1]['name'])
    #    ... and on trees whose separators are mere lower bounds (BTreeImpl!Loosen: states as older releases wrote them)
    for (nk, nv, lf, it) in ([(5, 1, 2, 2)] if quick else [(6, 1, 2, 2), (5, 2, 2, 2), (6, 1, 3, 2), (6, 1, 2, 3)]):
        r = tlc.run('BTreeImpl', shapes.cfg(nk, nv, lf, it, spec='SpecLooseAll', invariants=INVS, props=PROPS), timeout=3000)
        ck.add_tlc(r.summary(), 'BTreeImpl with loose separators keys=%d vals=%d sizes=(%d,%d)' % (nk, nv, lf, it))
        common.tlc_verdict(ck, r, ck.notes['tlc_runs'][-1]['name'])
    # 2. spec -> code: replay explored transitions into the real containers
    dumps, ldumps = [], {'c': [], 'py': []}
    for (nk, nv, lf, it, sets) in ([(5, 1, 2, 2, [True, False])] if quick else [(6, 1, 2, 2, [True, False]), (5, 2, 2, 2, [False])]):
        # (on such trees the two implementations split interior nodes differently - named deviation Py_GrowSepIsMinKey,
        #  finding D52 -, so each is replayed along its own flavour of the specification)
        for impl, dev in (('c', ()), ('py', ('Py_GrowSepIsMinKey',))):
            fn, payloads, summ = shapes.dump_file(nk, nv, lf, it, spec='SpecLooseAll', dev=dev)
            ck.add_tlc(summ, 'dump with loose separators (%s flavour) keys=%d vals=%d sizes=(%d,%d)' % (impl, nk, nv, lf, it))
            ldumps[impl].append((fn, payloads, nk, nv, lf, it, sets))
    spec = [(4, 2, 2, 2, [False]), (5, 1, 2, 2, [True]), (4, 2, 99, 2, [False, True])] if quick else \
           [(5, 2, 2, 2, [False, True]), (6, 1, 2, 2, [True]), (5, 2, 3, 2, [False]), (5, 2, 99, 2, [False, True]),
            (6, 1, 2, 3, [True])]
    for (nk, nv, lf, it, sets) in spec:
        fn, payloads, summ = shapes.dump_file(nk, nv, lf, it)
        ck.add_tlc(summ, 'dump keys=%d vals=%d sizes=(%d,%d)' % (nk, nv, lf, it))
        dumps.append((fn, payloads, nk, nv, lf, it, sets))
    # deeper trees (4+ levels) by simulation over 16 keys, effective steps only
    for (nk, nv, lf, it, num, depth, sets) in ([(16, 2, 2, 2, 40, 60, [False, True])] if quick else
                                               [(16, 2, 2, 2, 400, 80, [False, True]), (16, 1, 3, 2, 300, 80, [True]),
                                                (16, 2, 2, 3, 300, 80, [False])]):
        fn, payloads, summ = RP.sim_dump(ck, nk, nv, lf, it, num, depth, spec='SpecEff')
        ck.add_tlc(summ, 'simulation keys=%d sizes=(%d,%d) num=%d depth=%d' % (nk, lf, it, num, depth))
        dumps.append((fn, payloads, nk, nv, lf, it, sets))
    fams = embed.QUICK_FAMILIES if quick else embed.FAMILIES
    plan = RP.plan_jobs(ck, dumps, fams, ('c', 'py'), ('ext',) if quick else ('mid', 'ext'),
                        1200 if quick else 20000, 400 if quick else 4000, ['observe', 'checkers'])
    for impl in ('c', 'py'):
        plan += RP.plan_jobs(ck, ldumps[impl], fams, (impl,), ('ext',) if quick else ('mid', 'ext'),
                             800 if quick else 20000, 300 if quick else 4000, ['observe', 'checkers'])
    RP.run_plan(ck, plan)
    # 3. code -> spec: recorded random histories of the whole API, validated by TLC against Layer A
    hplan = []
    for fam in fams:
        for impl in ('c', 'py'):
            for kind in ('BTree', 'Bucket', 'TreeSet', 'Set'):
                for (lf, it, nk, emb) in ((2, 2, 12, 'ext'), (3, 2, 16, 'mid'), (None, None, 16, 'ext')):
                    hplan.append(dict(fam=fam, impl=impl, kind=kind, emb=emb, leaf=lf, internal=it, nkeys=nk,
                                      ntraces=4 if quick else 40, length=60 if quick else 200,
                                      seed=ck.seed * 1000 + len(hplan), structure=False))
    # the same with keys and values offered as instances of subclasses of int / float / bytes (bool for 0 and 1):
    # numbers and strings of the family like any other
    for fam in (['II', 'IF', 'LF', 'fs', 'UU'] if quick else [f for f in embed.FAMILIES if f != 'OO']):
        for impl in ('c', 'py'):
            for kind in ('BTree', 'Bucket', 'TreeSet', 'Set'):
                if fam[1] in 'Fs' and kind in ('TreeSet', 'Set') and fam[0] == 'O':
                    continue
                hplan.append(dict(fam=fam, impl=impl, kind=kind, emb='ext' if len(hplan) % 2 else 'mid', leaf=2, internal=2, nkeys=12,
                                  ntraces=2 if quick else 20, length=50 if quick else 150, subargs=True,
                                  seed=ck.seed * 1000 + 400 + len(hplan), structure=False))
    tracecheck.run_histories(ck, hplan, structure_judge=False)
    # 4. the same promise when the container lives in a database: histories of reads and writes with commits, aborts and
    #    cache sweeps between the calls (growth phases over 15 keys: trees of three and four levels) - every result as the
    #    sorted map says (TraceEvict: results from Layer A, structure from Persist; D18 attributed by the specification)
    from harness.checks.c05 import validate_evict
    from harness import jobs
    eplan = []
    for fam in (['OO', 'LF'] if quick else ['II', 'OO', 'LF', 'fs', 'OI', 'QQ']):
        for impl in ('c', 'py'):
            for is_set in (True, False):
                for (lf, it) in (((2, 2), (2, 3)) if quick else ((2, 2), (2, 3), (3, 2))):
                    eplan.append(dict(fam=fam, impl=impl, is_set=is_set, leaf=lf, internal=it, nkeys=15, grow=True,
                                      ntraces=8 if quick else 100, length=50 if quick else 90, pure=(impl == 'py'),
                                      seed=ck.seed * 100000 + 7000 + len(eplan), emb='mid'))
    validate_evict(ck, jobs.run_jobs('harness.workers.evict_worker', eplan, pure=True))
    ck.assumptions += ['keys of one container are mutually comparable',
                       'model keys/values are embedded order-preservingly into each family (harness/embed.py)',
                       'node sizes >= 2']
    ck.finish(exhaustive=not quick)


if __name__ == '__main__':
    main()
