"""C01 - containers behave as a sorted map / sorted set."""
import json, os, sys
from harness import common, tlc, shapes, jobs, embed, build

INVS = ('AbsOK', 'ResOK', 'LookupOK', 'Sound')
PROPS = ('ErrUnchanged',)


def main():
    ck = common.Check('C01')
    quick = ck.tier == 'quick'
    # 1. TLC: Layer B refines Layer A on every reachable state of the bounded instances
    insts = [(5, 2, 2, 2), (5, 1, 3, 2)] if quick else \
            [(5, 2, 2, 2), (6, 1, 2, 2), (6, 1, 3, 2), (6, 1, 2, 3), (5, 2, 3, 3), (7, 1, 2, 2)]
    for (nk, nv, lf, it) in insts:
        r = tlc.run('BTreeImpl', shapes.cfg(nk, nv, lf, it, invariants=INVS, props=PROPS), timeout=3000)
        ck.add_tlc(r.summary(), 'BTreeImpl keys=%d vals=%d sizes=(%d,%d)' % (nk, nv, lf, it))
        if not r.ok:
            ck.violation('TLC: %s violated on the specification (keys=%d vals=%d sizes=%d/%d): %s' % (
                r.violation or r.error, nk, nv, lf, it, r.out[-1500:]), dict(kind='tlc', inst=[nk, nv, lf, it]))
    # 2. spec -> code: replay explored transitions into the real containers
    plan = []
    dumps = [(4, 2, 2, 2, False), (5, 1, 2, 2, True), (4, 2, 99, 2, False)] if quick else \
            [(5, 2, 2, 2, False), (6, 1, 2, 2, True), (5, 2, 3, 2, False), (5, 2, 99, 2, False), (6, 1, 2, 3, True)]
    fams = embed.QUICK_FAMILIES if quick else embed.FAMILIES
    for (nk, nv, lf, it, is_set) in dumps:
        fn, payloads, summ = shapes.dump_file(nk, nv, lf, it)
        ck.add_tlc(summ, 'dump keys=%d vals=%d sizes=(%d,%d)' % (nk, nv, lf, it))
        n = len(payloads)
        for fam in fams:
            for impl in ('c', 'py'):
                for emb in (('mid', 'ext') if not quick else ('ext',)):
                    budget = (1500 if impl == 'c' else 500) if quick else (20000 if impl == 'c' else 4000)
                    idx = list(range(n))
                    if n > budget:
                        idx = sorted(ck.rng.sample(idx, budget))
                    kind = 'leaf' if lf >= 99 else 'tree'
                    sets = [is_set] if nv == 1 else [False, True]
                    if nv > 1 and is_set is False and quick:
                        sets = [False]
                    for s in sets:
                        plan.append(dict(dump=fn, fam=fam, impl=impl, kind=kind, is_set=s, emb=emb, leaf=lf,
                                         internal=it, nkeys=nk, indices=idx, seed=ck.seed,
                                         flags=['observe', 'checkers']))
    results = jobs.run_jobs('harness.workers.replay_worker', plan)
    for job, res, err in results:
        if err:
            ck.violation('replay worker died (%s %s %s): %s' % (job['fam'], job['impl'], job['kind'], err),
                         dict(kind='crash', fam=job['fam'], impl=job['impl'], err=err))
            continue
        ck.add_traces(res['counts']['replayed'])
        ck.bump('replay_steps', res['counts']['steps'])
        ck.bump('observations', res['counts']['checks'])
        for mm in res['mismatches']:
            ck.violation('%s %s %s: %s differs from the specification after %s' % (
                mm.get('fam'), mm.get('impl'), mm.get('kind'), mm['kind'], json.dumps(mm.get('act'))), mm)
    if results and results[0][1]:
        ck.sample(dict(kind='replayed transition', job={k: v for k, v in plan[0].items() if k not in ('indices', 'dump')}))
    ck.assumptions += ['keys of one container are mutually comparable',
                       'model keys/values are embedded order-preservingly into each family (harness/embed.py)',
                       'node sizes >= 2']
    ck.finish(exhaustive=not quick)


if __name__ == '__main__':
    main()
