"""Shared TLC runs over BTreeImpl: exhaustive invariant checking and the JSON
dump of the transition graph (cached by spec+cfg hash under .cache/dumps)."""
import json, os
from . import tlc

CFG = """SPECIFICATION %(spec)s
CONSTANTS
  Keys = {%(keys)s}
  Vals = {%(vals)s}
  MaxLeaf = %(leaf)d
  MaxInt = %(internal)d
  Dev = {%(dev)s}
VIEW View
%(extra)s
"""


def cfg(nkeys, nvals, leaf, internal, spec='Spec', invariants=(), props=(), dump=False, dev=(), firstkey=1, dumpop='Dump'):
    extra = ''.join('INVARIANT %s\n' % i for i in invariants)
    extra += ''.join('PROPERTY %s\n' % p for p in props)
    if dump:
        extra += 'ACTION_CONSTRAINT %s\n' % dumpop
    return CFG % dict(spec=spec, keys=','.join(str(i) for i in range(firstkey, firstkey + nkeys)),
                      vals=','.join(str(i) for i in range(1, nvals + 1)), leaf=leaf,
                      internal=internal, extra=extra, dev=','.join('"%s"' % d for d in dev))


def dump_file(nkeys, nvals, leaf, internal, spec='Spec', module='BTreeImpl', dev=(), dumpop='Dump'):
    """path of a JSON file {payloads, summary} holding every transition TLC
    explored for this instance"""
    c = cfg(nkeys, nvals, leaf, internal, spec=spec, dump=True, dev=dev, dumpop=dumpop)
    payloads, summ = tlc.cached_payloads(module, c, 'TR', workers=1, timeout=7200)
    key = tlc.spec_hash(module, c, 'TR', None, None, None)
    fn = os.path.join(tlc.CACHE, 'dumps', '%s-%s.json' % (module, key))
    return fn, payloads, summ
