"""Common driver: dump instances with TLC, fan replay jobs out over
families x implementations x kinds, fold the results into a Check."""
import json
from . import shapes, jobs, embed, tlc


def sim_dump(ck, nkeys, nvals, leaf, internal, num, depth, spec='Spec'):
    """transitions seen along `num` random behaviours of length `depth`
    (TLC -simulate); used to reach trees deeper than the exhaustive bound"""
    import os
    c = shapes.cfg(nkeys, nvals, leaf, internal, spec=spec, dump=True)
    sim = 'num=%d' % num
    payloads, summ = tlc.cached_payloads('BTreeImpl', c, 'TR', workers=1, simulate=sim, depth=depth,
                                         seed=ck.seed + 1, timeout=3000)
    key = tlc.spec_hash('BTreeImpl', c, 'TR', sim, ck.seed + 1, depth)
    fn = os.path.join(tlc.CACHE, 'dumps', 'BTreeImpl-%s.json' % key)
    return fn, payloads, summ


def stratified(rng, payloads, budget):
    """sample `budget` transition indices, spread evenly over classes of
    (operation, shape of the source, shape change) so that rare structural
    events (root split, unlink, error on an empty tree, ...) are always there"""
    from . import proj as P
    n = len(payloads)
    if n <= budget:
        return list(range(n))
    groups = {}
    for i, tr in enumerate(payloads):
        f, t = tr['from'], tr['to']
        ks = len(P.flatten(f)[0])
        g = (tr['act']['op'], P.depth(f), min(P.nleaves(f), 4), min(ks, 3), P.depth(t) - P.depth(f),
             P.nleaves(t) - P.nleaves(f), tr['res'][0])
        groups.setdefault(g, []).append(i)
    for g in groups.values():
        rng.shuffle(g)
    out = []
    order = sorted(groups)
    while len(out) < budget:
        progressed = False
        for g in order:
            if groups[g]:
                out.append(groups[g].pop())
                progressed = True
                if len(out) >= budget:
                    break
        if not progressed:
            break
    return sorted(out)


def plan_jobs(ck, dumps, fams, impls, embs, budget_c, budget_py, flags, worker_kinds=None):
    """dumps: list of (fn, payloads, nkeys, nvals, leaf, internal, sets) where
    sets is the list of is_set values to run"""
    plan = []
    for (fn, payloads, nk, nv, lf, it, sets) in dumps:
        n = len(payloads)
        for fam in fams:
            for impl in impls:
                for emb in embs:
                    budget = budget_c if impl == 'c' else budget_py
                    idx = stratified(ck.rng, payloads, budget)
                    kind = 'leaf' if lf >= 99 else 'tree'
                    for s in sets:
                        plan.append(dict(dump=fn, fam=fam, impl=impl, kind=kind, is_set=s, emb=emb, leaf=lf,
                                         internal=it, nkeys=nk, indices=idx, seed=ck.seed, flags=flags))
    return plan


def run_plan(ck, plan, module='harness.workers.replay_worker', flavour='plain'):
    results = jobs.run_jobs(module, plan, flavour=flavour)
    for job, res, err in results:
        if err:
            ck.violation('worker died (%s %s %s): %s' % (job.get('fam'), job.get('impl'), job.get('kind'), err),
                         dict(kind='crash', fam=job.get('fam'), impl=job.get('impl'), err=err))
            continue
        ck.add_traces(res['counts']['replayed'])
        for k, v in res['counts'].items():
            if k != 'replayed':
                ck.bump('replay_' + k, v)
        for mm in res['mismatches']:
            ck.violation('%s %s %s set=%s: %s differs from the specification after %s' % (
                mm.get('fam'), mm.get('impl'), mm.get('kind'), mm.get('is_set'), mm['kind'],
                json.dumps(mm.get('act'))), mm)
        if res.get('samples'):
            for s in res['samples'][:2]:
                ck.sample(s)
    if plan:
        ck.sample(dict(kind='replay job', job={k: v for k, v in plan[0].items() if k not in ('indices', 'dump')},
                       transitions=len(plan[0]['indices'])))
    return results
