"""Stand-in data manager (ZODB is not installed): exactly the protocol the
containers see -- register, readCurrent, setstate, a persistent.PickleCache,
a store of (serial, pickle) histories, commit in ZODB's writer order
(registered objects first-come; objects first reached while serializing get
an oid on the spot and are written next, last-in first-out), per-object serial
check with _p_resolveConflict, readCurrent verification, abort by
invalidation.  Trusted stand-in; Persist.tla / Txn.tla model the same protocol
and the replayed commit results are compared with the model's."""
import io
import pickle

from persistent import PickleCache, Persistent


class ConflictError(Exception):
    pass


class ReadConflictError(ConflictError):
    pass


class PR:
    """persistent reference stub handed to _p_resolveConflict"""

    def __init__(self, oid, klass):
        self.oid, self.klass = oid, klass

    def __eq__(self, o):
        return isinstance(o, PR) and o.oid == self.oid

    def __ne__(self, o):
        return not self == o

    def __hash__(self):
        return hash(self.oid)

    def __lt__(self, o):
        raise TypeError('persistent references are not orderable')

    def __repr__(self):
        return 'PR(%r)' % (self.oid,)


class Store:
    def __init__(self):
        self.data = {}      # oid -> [(serial, pickle), ...]
        self.tid = 0
        self._oid = 0

    def new_oid(self):
        self._oid += 1
        return self._oid.to_bytes(8, 'big')

    def load(self, oid):
        serial, data = self.data[oid][-1]
        return data, serial

    def serial(self, oid):
        return self.data[oid][-1][0] if oid in self.data else None

    def load_serial(self, oid, serial):
        for s, d in self.data[oid]:
            if s == serial:
                return d
        raise KeyError(oid)


class Jar:
    def __init__(self, store, cache_size=1000000):
        self.store = store
        self.cache = PickleCache(self, cache_size)
        self.registered = []
        self.readcurrent = {}
        self.log = []           # ('register'|'readCurrent', obj)
        self.resolved = []      # (oid, reason/None) of conflict resolutions attempted at the last commit

    # --- protocol seen by Persistent objects
    def setstate(self, obj):
        data, serial = self.store.load(obj._p_oid)
        _, state = self._unpickle(data, self._pload)
        obj.__setstate__(state)
        obj._p_serial = serial

    def register(self, obj):
        self.log.append(('register', obj))
        self.registered.append(obj)

    def readCurrent(self, obj):
        self.log.append(('readCurrent', obj))
        if obj._p_oid not in self.readcurrent:
            self.readcurrent[obj._p_oid] = obj._p_serial

    def oldstate(self, obj, serial):
        raise NotImplementedError

    # --- plumbing
    def _unpickle(self, data, pload):
        up = pickle.Unpickler(io.BytesIO(data))
        up.persistent_load = pload
        return up.load(), up.load()

    def _pload(self, ref):
        oid, klass = ref
        obj = self.cache.get(oid)
        if obj is None:
            obj = klass.__new__(klass)
            self.cache.new_ghost(oid, obj)
        return obj

    def get(self, oid):
        obj = self.cache.get(oid)
        if obj is not None:
            return obj
        data, _ = self.store.load(oid)
        klass, _ = self._unpickle(data, lambda ref: None)
        return self._pload((oid, klass))

    def add(self, obj):
        oid = self.store.new_oid()
        obj._p_jar = self
        obj._p_oid = oid
        self.cache[oid] = obj
        obj._p_changed = True
        return oid

    def abort(self):
        for o in self.registered:
            if o._p_oid is not None and self.store.serial(o._p_oid) is not None:
                o._p_invalidate()
        self.registered = []
        self.readcurrent = {}

    def sync(self):
        """start of a new transaction: drop what other connections have replaced"""
        for oid, o in list(self.cache.items()):
            if o._p_changed is None:
                continue
            cur = self.store.serial(oid)
            if cur is not None and o._p_serial != cur:
                o._p_invalidate()

    def commit(self):
        """returns the list of objects written, in write order"""
        tid = (self.store.tid + 1).to_bytes(8, 'big')
        written = []
        seen = set()
        newly = []
        self.resolved = []
        try:
            for robj in list(self.registered):
                if robj._p_oid in seen:
                    continue
                if not robj._p_changed and self.store.serial(robj._p_oid) is not None:
                    # ZODB's Connection._commit: a registered object that no longer says it is changed is not written
                    # ("it's legal for an object to set _p_changed to false after it's been changed and registered")
                    continue
                stack = [robj]

                def pid(o):
                    if isinstance(o, PR):
                        return (o.oid, o.klass)
                    if isinstance(o, Persistent):
                        if o._p_oid is None:
                            oid = self.store.new_oid()
                            o._p_jar = self
                            o._p_oid = oid
                            self.cache[oid] = o
                            stack.append(o)
                            newly.append(o)
                        return (o._p_oid, type(o))
                    return None

                def dump(klass, state):
                    f = io.BytesIO()
                    p = pickle.Pickler(f, 3)
                    p.persistent_id = pid
                    p.dump(klass)
                    p.dump(state)
                    return f.getvalue()
                while stack:
                    o = stack.pop()
                    if o._p_oid in seen:
                        continue
                    seen.add(o._p_oid)
                    data = dump(type(o), o.__getstate__())
                    cur = self.store.serial(o._p_oid)
                    resolved = False
                    if cur is not None and o._p_serial != cur:
                        refs = {}

                        def pl(ref):
                            oid, klass = ref
                            if oid not in refs:
                                refs[oid] = PR(oid, klass)
                            return refs[oid]
                        klass, new = self._unpickle(data, pl)
                        _, old = self._unpickle(self.store.load_serial(o._p_oid, o._p_serial), pl)
                        _, com = self._unpickle(self.store.load(o._p_oid)[0], pl)
                        inst = klass.__new__(klass)
                        try:
                            res = inst._p_resolveConflict(old, com, new)
                        except Exception as e:
                            self.resolved.append((o._p_oid, getattr(e, 'reason', repr(e))))
                            raise ConflictError(o._p_oid, repr(e))
                        self.resolved.append((o._p_oid, None))
                        data = dump(klass, res)
                        resolved = True
                    written.append((o, data, resolved))
            for oid, serial in self.readcurrent.items():
                if oid in seen:
                    continue
                if self.store.serial(oid) != serial:
                    raise ReadConflictError(oid)
        except ConflictError:
            # nothing was stored; objects that were given an oid during this attempt are
            # disowned again (ZODB: Connection._invalidate_creating)
            for o in newly:
                try:
                    del self.cache[o._p_oid]
                except KeyError:
                    pass
                del o._p_jar
                del o._p_oid
            self.abort()
            raise
        self.store.tid += 1
        for o, data, resolved in written:
            self.store.data.setdefault(o._p_oid, []).append((tid, data))
            if resolved:
                o._p_invalidate()
            else:
                o._p_changed = False
                o._p_serial = tid
        self.registered = []
        self.readcurrent = {}
        return [o for o, _, _ in written]
