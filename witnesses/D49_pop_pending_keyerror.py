# BTree.pop(missing key) without default, root deactivated inside a comparison below the root
import persistent, pickle
from persistent import PickleCache
from BTrees.OOBTree import OOBTree

class Jar:
    def __init__(self):
        self.store = {}; self.cache = PickleCache(self); self.n = 0
    def add(self, o):
        self.n += 1; o._p_oid = self.n.to_bytes(8, 'big'); o._p_jar = self; self.cache[o._p_oid] = o
    def register(self, o): pass
    def readCurrent(self, o): pass
    def save(self, o):
        st = o.__getstate__()
        self.store[o._p_oid] = (type(o), st)
        o._p_changed = False
    def setstate(self, o):
        cls, st = self.store[o._p_oid]
        o.__setstate__(st)

class Small(OOBTree):
    max_leaf_size = 2
    max_internal_size = 2

class K:
    hook = None
    def __init__(self, v): self.v = v
    def __lt__(self, o):
        if K.hook: K.hook()
        return self.v < o.v
    def __eq__(self, o): return self.v == o.v
    def __hash__(self): return hash(self.v)

jar = Jar()
t = Small()
for i in range(12): t[K(i)] = i
# give every node an oid and store it (children first is not needed for this fake)
def nodes(n, acc):
    acc.append(n)
    st = n.__getstate__()
    if hasattr(n, '_firstbucket') and st and len(st) == 2:
        for c in st[0][0::2]: nodes(c, acc)
    return acc
for n in nodes(t, []): jar.add(n)
b = t._firstbucket
while b is not None:
    if b._p_oid is None: jar.add(b)
    b = b._next
for o in list(jar.cache.items()): jar.save(o[1])
calls = [0]
def hook():
    calls[0] += 1
    t._p_deactivate()          # the root is not pinned while a lower level is searched
K.hook = hook
try:
    t.pop(K(100))
    raise SystemExit('no exception?')
except KeyError:
    print('KeyError: ok')
except BaseException as e:
    print('WRONG: %s: %s' % (type(e).__name__, e)); raise SystemExit(1)
