import subprocess, sys
code1 = '''
from BTrees.IIBTree import IISet, IISetPy, IIBTree, IIBTreePy, union, intersection, difference, multiunion, weightedUnion
a, p = IISet([1, 2, 3]), IISetPy([2, 3, 4])
assert list(union(a, p)) == [1, 2, 3, 4], list(union(a, p))
assert list(intersection(a, p)) == [2, 3]
assert list(difference(a, p)) == [1]
assert list(a | p) == [1, 2, 3, 4]
assert list(multiunion([a, p])) == [1, 2, 3, 4]
m, mp = IIBTree({1: 1}), IIBTreePy({1: 2, 5: 5})
assert list(union(m, mp)) == [1, 5]
try:
    weightedUnion(m, mp)
except TypeError:
    pass
print("ok")
'''
code2 = '''
from BTrees.OOBTree import OOBTree, OOBucket, OOBucketPy
b0, b1 = OOBucket({1: 1}), OOBucket({5: 5})
b0.__setstate__(((1, 1), b1))
fb = OOBucketPy({1: 1})
t = OOBTree()
try:
    t.__setstate__(((b0, 5, b1), fb))
except TypeError as e:
    print("refused:", e)
else:
    print(list(t.items()))
print("ok")
'''
rc = 0
for name, code in (('set operations with a Python container as operand', code1), ('firstbucket that only claims to be a bucket', code2)):
    r = subprocess.run([sys.executable, '-c', code], capture_output=True, text=True)
    print(name, '->', r.returncode, r.stdout.strip()[-120:], r.stderr.strip()[-200:])
    rc |= (r.returncode != 0)
sys.exit(rc)
