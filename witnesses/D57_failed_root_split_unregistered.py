import sys
sys.path.insert(0,'/verif')
from harness import minijar
from BTrees.IIBTree import IITreeSet
import BTrees._IIBTree as cm
IITreeSet.max_leaf_size=2; IITreeSet.max_internal_size=2
def stored(keys):
    t=IITreeSet()
    for k in keys: t.add(k)
    store=minijar.Store(); jar=minijar.Jar(store)
    todo=[t]
    while todo:
        n=todo.pop(0); jar.add(n)
        if hasattr(n,'_firstbucket'):
            st=n.__getstate__()
            if st is not None: todo.extend([n._firstbucket] if len(st)==1 else list(st[0][0::2]))
    root=t._p_oid
    jar.commit(); jar.log=[]; del todo,n,st
    return t,jar,store,root
for keys,new in ((list(range(10,70,10)),65),(list(range(10,70,10)),5),(list(range(10,130,10)),125),(list(range(10,130,10)),5)):
    t,jar,store,root=stored(keys)
    cm._verif_arm(0); t.add(new); tot=cm._verif_allocs()
    for n in range(1,tot+1):
        t,jar,store,root=stored(keys)
        cm._verif_arm(n)
        try: t.add(new); out='ok'
        except MemoryError: out='ME'
        cm._verif_arm(0)
        w=list(t)
        try:
            t._check(); chk='ok'
        except Exception as e: chk=str(e)[:40]
        jar.commit()
        t2=minijar.Jar(store).get(root)
        try:
            r=list(t2); t2._check(); rc='ok'
        except Exception as e:
            r='?'; rc=type(e).__name__+str(e)[:40]
        if r!=w or rc!='ok' or chk!='ok':
            print(len(keys),new,'fail at',n,'of',tot,out,'writer',w,chk,'reader',r,rc)
print('done')
