import subprocess, sys
code = '''
from BTrees.OOBTree import OOBTree
try:
    del OOBTree.max_leaf_size
except (TypeError, AttributeError) as e:
    print("refused:", e)
t = OOBTree()
for i in range(200): t[i] = i
assert list(t) == list(range(200))
'''
r = subprocess.run([sys.executable, '-c', code], capture_output=True, text=True)
print(r.returncode, r.stdout.strip(), r.stderr.strip()[-200:])
sys.exit(0 if r.returncode == 0 else 1)
